#!/usr/bin/env python3
"""Regenerate MANIFEST.json from the table below (run from /verif)."""
import json
import os

HERE = os.path.dirname(os.path.dirname(os.path.abspath(__file__)))

TECH = "contract-based deductive verification: VCs generated from the real AST (wgvc), discharged by z3/cvc5"

CLAIMED = {
    "C10": dict(
        level="proof",
        text=("Every obligation generated from the current source of the 14 EOS methods, setExtrapolate and alpha is "
              "discharged (unsat of the negated goal) for all real temperatures, range ends and free-energy values: "
              "e=T dp-p, w=T dp, de=de/dT, csq*de=dp in all three regions; dp and ddp are the derivatives of the reported "
              "p and dp in all three regions; p=-f inside; p, dp, ddp continuous at all four range ends after "
              "setExtrapolate (pins all 12 extrapolation coefficients)."
          " Whenever a table is installed (_interpolate, setExtrapolationType) the derivative splines are those of the new spline (shared with C18)."),
        note=("Assumed: FreeEnergy(T).veffValue is f(T) and FreeEnergy.derivative(T,k) its k-th derivative (spline contract); "
              "floats are reals; every denominator occurring is non-zero; for symbolic exponents only b**(x+y)=b**x*b**y, "
              "b**(-x)=1/b**x and b>0 => b**x>0. Trusted: wgvc interpreter/encoder, sympy normalisation and diff, z3."),
        design="3 (C10)"),
}

COMMON_NOTE = ("Assumed: floats are reals, every denominator that occurs is non-zero, sqrt of a negative number is unspecified; "
               "callee contracts proved in their own property (Thermodynamics EOS functions are pure with w=e+p, C10); external "
               "routines only by their documented contract (root_scalar/brentq: sign-changing bracket else ValueError, root in the "
               "bracket, converged => f(root)=0; root/hybr: success => fun=0; minimize_scalar: x in bounds, no optimality; "
               "solve_ivp/simpson: no accuracy). Trusted: wgvc interpreter/encoder, sympy normalisation/diff, z3.")

CLAIMED["C02"] = dict(
    level="proof",
    text=("For every EOS (uninterpreted p,e,w per phase) and every wall velocity: junction lemma; vpvmAndvpovm returns v+v- and v+/v- of "
          "the flux relations; every tuple returned by matchDeton and by matchDeflagOrHyb on the path where hybr converged carries equal "
          "energy flux and equal momentum flux; the residuals given to brentq/hybr are those relations; findMatching dispatches on vw>vJ, "
          "returns the matching at the root of (shock temperature - Tn) and takes the template fallback only when no sign change was found "
          "and the bounded extremum is positive; findHydroBoundaries returns c1=-w g^2 v and c2=p+w g^2 v^2 of BOTH sides and "
          "velocityMid=-(v+ + v-)/2. Known finding F7: on the path where hybr did not converge the tuple is returned anyway."
          " The template model's own _findTm/getVp/wFromAlpha/findHydroBoundaries/findMatching obligations (observation points of this property) are discharged here as well (shared with C15)."),
    note=COMMON_NOTE + " Not decided: convergence of hybr/brentq; the 'exact rather than approximate' clause beyond the guard of the fallback. "
         "Block contract: the initial-guess section of matchDeflagOrHyb is abstracted by its frame (checked on the AST each run).",
    design="3 (C02)")
CLAIMED["C03"] = dict(
    level="proof",
    text=("shockDE returns d xi/dv and dT/dv of the self-similar fluid equations in both waves; the front event is mu(xi,v) xi = cs^2; the "
          "residual whose root solveHydroShock returns is continuity of the energy flux across the front with plasma at rest ahead, in all "
          "three cases of the case split (loop contract for the bracket search); centre-frame v+ is the Lorentz addition; detonation front is "
          "undisturbed; efficiencyFactor integrates xi^2 v^2 g^2 w of the same right-hand side with prefactor 4/(vw^3 w(Tn) alpha_n), rarefaction "
          "part with low-phase enthalpy and minus sign; template _dxiAndWdv and its event are the constant-sound-speed versions."
          " Template model: efficiencyFactor (w+ = (T+/Tn)^mu, w- from energy-flux continuity, shock part iff vw<vJ from mu(vw,v+), rarefaction part iff vw>cb with minus sign, integrand, prefactor 4/(vw^3 alN)) and integratePlasma (what solve_ivp is given: rhs, span to 1e-10, initial state, front event terminal iff shock wave, rtol/10)."
          " matchDeton's contract (front undisturbed: v+=vw, T+ = the solver's own Tn; the shared thermodynamics object's current Tn is a different symbol) is re-discharged here."),
    note=COMMON_NOTE + " Not decided: accuracy of solve_ivp and simpson, that the terminal event fires.",
    design="3 (C03)")
CLAIMED["C05"] = dict(
    level="proof",
    text=("Every tuple returned by matchDeflagOrHyb(vw) satisfies T+^2(1-v-^2)=T-^2(1-v+^2) and the hybr residual encodes the same relation; "
          "findvwLTE: sentinel 1 only for {shock bracket fails, mismatch at top of window positive, matching not converged}, sentinel 0 iff "
          "mismatch at vMin negative after those guards, otherwise the brentq root of (shock temperature - Tn) on [vMin, vmax] with bracket signs "
          "and tolerances as stated; the convergence flag is never read before it is written (stale-state frame obligation)."
          " A path that returns the runaway sentinel without its evidence gets the same obligation (nothing implies it). Root finds are identified by their call site."
          " Class frame of Hydrodynamics (on the AST): no method other than the constructor writes the window constants (vJ, vMin, ranges, tolerances); per-call state is the convergence flag and the two phase-trace-limit flags."
          " The template LTE machinery of the anchors (template findvwLTE, _eqWall, solveAlpha, maxAl) is discharged here as well (shared with C15)."
          " WallGoManager._initHydrodynamics builds a fresh Hydrodynamics from the thermodynamics of this setup and the configured range/tolerances and reads nothing an earlier setup left on the manager; wallSpeedLTE is findvwLTE() of that object."),
    note=COMMON_NOTE + " Not decided: 'one sign over the whole window' (needs monotonicity of the mismatch), uniqueness of the matching at the root.",
    design="3 (C05)")
CLAIMED["C06"] = dict(
    level="proof",
    text=("matchDeflagOrHyb: v-^2=min(vw^2,cs^2_low(T-)), v- in {vw, cs_low}, 0<=v-<=vw; matchDeton: v+=vw, T+=Tn, v-^2=(v+v-)/(v+/v-), root "
          "bracketed between Tn and the minimiser; findJouguetVelocity: the residual is the numerator of d(v+^2)/dT-, Chapman-Jouguet lemma "
          "(its zero has v-^2=cs^2_low), returned value is v+ there (loop contract for the bracket search); template vJ solves the CJ quadratic "
          "(larger root), detonationVAndT solves the matching quadratic on the weak branch and gives v-=cb at vJ; fastestDeflag/slowestDeton: "
          "returned value and range flags on every path."
          " strongestShock (plasma at rest in front, p+(T+)=p-(TMinHydro), result = solveHydroShock(vw,0,T+) at a converged root, 0 iff not bracketed); minVelocity (root of strongestShock(vw)-Tn on (vBracketLow,vJ), 0 iff not bracketed); Hydrodynamics.__init__ (vJ from findJouguetVelocity, template value only on WallGoError; vMin=max(1e-3,minVelocity()); temperature range (tmin,tmax)*Tn; phase ranges; flags)."
          " Class frame of Hydrodynamics as in C05. Template-model solver methods called from the general solver are values of another implementation (uninterpreted), never inlined."
          " Class frame of the template model and its matching/minVelocity obligations are discharged here as well (shared with C15)."
          " The EOS obligations of C10 (in particular csqLowT = dp/de in every region of the phase's own range) are discharged here as well."),
    note=COMMON_NOTE + " Not decided: 0<v<1, v+<v-, T+>Tn, weak-vs-strong selection by the numerical bracket, monotonicity of T(vw).",
    design="3 (C06)")

CLAIMED["C17"] = dict(
    level="proof",
    text=("Grid and Grid3Scales on a generic point of the open compact cube: the reported Jacobian equals d(decompactify)/d(compact coordinate) in "
          "all three directions (for the five-term three-scale map too); every Jacobian is positive under the class invariant (three-scale position "
          "map: proved through lemmas - structure of the Jacobian, each smoothed step contributes smoothing*L/r at the centre, monotone/bounded "
          "sigmoid, bilinear lower bound (1-smoothing) L/r); compact origin -> wall centre, p_z(0)=0, p_par(-1)=0; centre slope = L/r with aIn/aOut "
          "from _updateParameters (closed forms proved); Grid.compactify and decompactify are mutually inverse; after every change*FalloffScale the "
          "cached coordinates and Jacobians equal the maps of the current parameters. Known finding F3: the inverse offered by Grid3Scales."
          " Constructors (M=N=3, both spacings): parameters are the arguments (in particular the wall centre), nodes symmetric, cache current."
          " decompactify, compactify and compactificationDerivatives do not modify the arrays they are given."),
    note=COMMON_NOTE + " Requires smoothing < 1 (documented in the class docstring, not asserted by the code; for smoothing > 1 the Jacobian is "
         "negative near the ends). artanh(u+0j).real is read as Re artanh with derivative u'/(1-u^2). Large equational goals are normalised by "
         "polynomial expansion (sympy) before the solver sees them. Not decided: that callers pass smoothing < 1.",
    design="3 (C17)")
CLAIMED["C19"] = dict(
    level="proof",
    text=("helpers.derivative / gradient / hessian interpreted on a generic polynomial with symbolic coefficients (tables read from the AST each "
          "run): every stencil row selected on every path (interior, one and two steps from either bound) is exact for all polynomials of degree "
          "<= points-1, all x and all steps h; with bounds the function is never evaluated outside [lo,hi] when hi-lo >= W*h (W=2,4,3,5, and each W "
          "is shown to be least); gradient components/axis selection (also negative and permuted axes, per-variable steps, step from scale and "
          "epsilon) for 2 and 3 variables; Hessian stencils exact to total degree order+1 with dx_i*dx_j divisor and axis selection."
          " EffectivePotential.derivT/derivField/deriv2FieldT/deriv2Field2/allSecondDerivatives are run end to end through the real helpers on a generic cubic polynomial potential of two fields and T: each returns exactly the partial derivatives it is named after (axes, scales, slicing, private combined-scales array), and derivT never evaluates at a negative temperature."),
    note=COMMON_NOTE + " Rounding is not modelled ((x+dx)-x == dx exactly). Bounded and labelled as such in the evidence: output shape for array "
         "inputs is checked for length-2 arrays / a (2,2) batch only; 3-variable order-4 gradient uses degree 2 per variable." + " Array dtypes are modelled only as 'this pre-state array is integer' (stores truncate; derivField is also checked with an integer fields array); nothing else about dtypes.",
    design="3 (C19)")

CLAIMED["C01"] = dict(
    level="proof",
    text=("EOM.solveWall with wallPressure under contract (a function of its arguments that writes the two convergence flags), every path "
          "(263): brentq gets [vMin', vMax] with pressure(vMin')<=0<=pressure(vMax), xtol==errTol, method brentq, and inside the bracket the "
          "function is the wall pressure; success with a velocity => converged root inside the window, flags of the LAST evaluation true, "
          "temperatures in range, wall parameters off their bounds, DETONATION iff velocity>vJ, every reported datum comes from the last "
          "evaluation and that evaluation was made AT the returned velocity; RUNAWAY => pressure at the top negative and no velocity; "
          "unsuccessful => ERROR; loop contract for the vMin doubling loop; no solver state of an earlier call is read before being rewritten "
          "(stale-state obligations on pressAbsErrTol and both flags). Deflagration entry point: window [vMin, min(vJ, fastestDeflag)], initial "
          "wall 5/Tn. Manager: setupWallSolver builds a fresh grid/Boltzmann solver/EOM per call, writes no manager attribute and reads no "
          "attribute an earlier call could have left behind (stale-by-default pre-state). Frame of wallPressure checked on the AST (only the "
          "two flags are written; collaborator calls inside an allow-list); free energies evaluated inside their table. "
          "findWallVelocityDetonation with a loop contract: every solution comes from solveWall on a step whose ends have pressures <=0 and "
          ">=0; RUNAWAY only if the pressure was non-positive at every velocity evaluated, including the top of the window."
          " Body of wallPressure under a loop contract (pressures list abstracted by length class 1,2,3,>=4): hydro data returned are those of findHydroBoundaries at the velocity asked; on a converged exit the four outputs are those of ONE evaluation (the last), the exit test held, the flag is the True written at the start; on the iteration-limit exit the flag is False and the pressure the mean of the last (up to four) evaluations. _getNextPressure: chained evaluations with the same boundary data, Aitken point for oscillating pressures, outputs of the last evaluation, err as stated."
          " Every configured tolerance and bound (errTol, maxIterations, pressRelErrTol, conserveEnergyMomentum, thickness and offset bounds) reaches the EOM that setupWallSolver builds."),
    note=COMMON_NOTE + " Assumed contract of EOM.wallPressure (its inner pressure iteration and Nelder-Mead are not verified): deterministic "
         "function of its arguments and pressAbsErrTol; frame = the two flags. Brackets narrower than the hard-wired 1e-10 are excluded. "
         "helpers.nextStepDeton is an assumed contract (returns a velocity between pos2 and posMax). "
         "Not decided: convergence of the pressure iteration, includeOffEq=True error estimates.",
    design="3 (C01)")
CLAIMED["C04"] = dict(
    level="proof",
    text=("plasmaVelocity returns v with w g^2 v = s1, |v|<1; temperatureProfileEqLHS = K - V + w g^2 v^2 - s2; every (T,v) returned by "
          "findPlasmaProfilePoint after the root find satisfies the T33 balance and v=plasmaVelocity(T), and (lemma) then T30 and T33 including the "
          "out-of-equilibrium parts equal c1, c2; loop contract for the bracket expansion; boundary lemma: (T+,-v+) and (T-,-v-) solve the point "
          "equations far from the wall (with C02's junction conditions). Known finding F6: the no-root branch returns the minimiser with T>0."
          " deltaToTmunu (assumed contract of the point equations) is re-discharged here: T30/T33 are the boosted integrals of p^mu p^nu delta f."
          " findPlasmaProfilePoint searches the root BELOW the minimum of the parabola exactly for detonations (T+ = Tn within 1e-10) and above it otherwise (loop invariant testTemp = tempAtMinimum * TMultiplier)."),
    note=COMMON_NOTE + " Assumed: EffectivePotential.evaluate/derivT are V and dV/dT; envelope theorem for the boundary lemma. Bounded: "
         "findPlasmaProfile's flag <=> all T>0 is checked for 3 grid points (for-loop unrolled).",
    design="3 (C04)")
CLAIMED["C09"] = dict(
    level="proof",
    text=("wallProfile: dPhidz is the exact z-derivative of fields for every field (array and scalar branch), fields is the tanh ansatz; "
          "_intermediatePressureResults: the integrand is sum_f (dV/dphi_f + dVout_f) dphi_f/dz with the profile of the FINAL wall parameters, "
          "dVout = 1/2 sum dof dm^2/dphi Delta00, integrated with weight -dz/dchi, and the returned pressure is that integral; chain-rule lemma: "
          "at constant T and without Delta00 the integrand is d/dz V(phi(z))."
          " The weight dz/dchi is the derivative of the position map of Grid and Grid3Scales (callee contract re-discharged here; counter-models are replayed natively)."
          " _updateGrid: the wall region of the re-mapped grid is the envelope of the walls of all fields (contains each interval [(-1-d_i)L_i, (1-d_i)L_i], both ends attained); tails long enough for the grid's own assertion."
          " Also discharged here: the minimiser box is the configured one; _getNextPressure passes profiles and boundary data through unchanged (shared with C01); EffectivePotential.derivField end to end through the real stencils (shared with C19)."
          " The z-quadrature of the real Polynomial.integrate on a grid with M != N (4,5) carries the Gauss-Chebyshev-Lobatto weights pi/M (shared with C16)."),
    note=COMMON_NOTE + " Not claimed: numerical equality with V(low)-V(high) (quadrature and finite-difference accuracy). Nelder-Mead by stub "
         "(returns arbitrary parameters). Checked on 2 fields x 2 grid points x 2 particles with elementwise expressions.",
    design="3 (C09)")
CLAIMED["C12"] = dict(
    level="proof",
    text=("buildLinearEquations interpreted on M=3,N=3, two particles, real Gauss-Lobatto nodes, symbolic profiles/masses/coordinates/collision "
          "tensor, in all four basis combinations and the finite-difference mode: the source equals dfEq/T dchi/dxi [p_w p_pl g^2 dv + p_w E_pl dT/T "
          "+ dm^2 u_w.ubar/2] with EACH profile differentiated by the mode's own operator (F1 fixed); Liouville and collision terms entry by entry "
          "(T^2 on the row index, intertwiners, multiplier); operator = Liouville + collision, row-major flattening; homogeneous background => "
          "source 0 (spectral); _dfeq = d _feq/dx for both statistics; solveBoltzmannEquations solves one assembled system and reshapes row-major; "
          "setBackground boosts a deep copy."
          " EOM.getBoltzmannFiniteDifference works on a deep copy (solver in use untouched), copy switched to finite differences with Cardinal bases, returns the copy's moments."
          " getDeltas structure obligations and the frame of estimateTruncationError (shared with C13) are discharged here as well."),
    note=COMMON_NOTE + " Bounded in grid size (M=3, N=3; all entries symbolic). findiff's matrix is an arbitrary symbolic matrix. Not decided: "
         "basis independence of the solved deviation for all sizes, FD->spectral convergence, non-singularity of the operator.",
    design="3 (C12)")
CLAIMED["C13"] = dict(
    level="proof",
    text=("deltaToTmunu equals the boosted direct integral of p^mu p^nu delta f (T30, T33) for every velocity |v|<1 and every moment set; "
          "getDeltas wraps the deviation as (Array,z,pz,pp) polynomial without endpoints, brings ALL polynomial axes to the cardinal basis before "
          "applying pointwise weights, integrates over axes (2,3) with W00=(dpz/drz)(dpp/drp) pp/(4 pi^2 E), W02=pz^2 W00, W20=E^2 W00, W11=E pz W00, "
          "E^2=m^2(z)+pz^2+pp^2, and returns the four moments in order."
          " estimateTruncationError, which getDeltas calls on the same array before the moments are taken, does not modify its argument in any of the four basis configurations (real Polynomial code, aliasing modelled by real numpy arrays)."
          " BoltzmannDeltas / BoltzmannResults arithmetic (+, -, number*, *number) acts on each moment (and on deltaF, Deltas) separately: linear combinations of moment sets are the moment sets of the linear combinations."
          " After Grid.changeMomentumFalloffScale the cached momenta AND Jacobians are those of the new scale (pre-state: cache current for the old scale; shared with C17)."),
    note=COMMON_NOTE + " Linearity and quadrature exactness are delegated to the contract of Polynomial.integrate/changeBasis (C16). Checked on "
         "2 particles and a 2x2x2 symbolic grid; the expressions are elementwise.",
    design="3 (C13)")
CLAIMED["C14"] = dict(
    level="proof",
    text=("With a fully symbolic collision tensor, for 1..3 particles (the range of the property): newFromDirectory puts the data of file (i,j) at "
          "[i,:,:,j,:,:]; a missing file (each one), an oversized target grid and a size mismatch without interpolation raise CollisionLoadError; "
          "loadCollisions keeps the previously installed array on every exceptional path; changeBasis leaves the operator's action on every "
          "distribution unchanged in both directions (inverse-transpose rule); interpolateCollisionArray gives, per pair (a,b), the source operator "
          "evaluated at the target grid points truncated to low orders, for 1 and 2 particles (F2 fixed), and does not modify its input."
          " A second, opposite basis change on the same grid object leaves the operator action unchanged (nothing cached by the first conversion is reused for a different one)."),
    note=COMMON_NOTE + " h5py.File by assumed contract. Grid sizes: stored N=5 -> target N=3 for interpolation, N=3 for loading and basis change; "
         "3-particle interpolation not run (cost).",
    design="3 (C14)")
CLAIMED["C16"] = dict(
    level="other",
    text=("BOUNDED stand-in, not a proof: the real Polynomial/Grid code interpreted with symbolic coefficients on the exact Gauss-Lobatto nodes of "
          "grids (M,N) in {(3,3),(4,5)}: evaluate, cardinal<->Chebyshev round trip, derivative exact at all grid points incl. boundaries from "
          "both bases, GCL integration weights incl. half weights, in z/pz/pp with and without endpoints; rank-2 (Array,pz) independence."
          " Rank 2 with two polynomial axes (z, pz), all endpoint combinations and three basis pairs: evaluate returns the value of the bivariate polynomial at a generic point (bounded M=N=3)."
          " One changeBasis call converting two equal axes (pz, pz) in opposite directions preserves the polynomial."
          " Rank 3 (Array, z, pz): the derivative along the last axis is exact and leaves the order of the other axes alone."),
    note="Bound: grid sizes listed; within a size every polynomial of the space is covered (symbolic coefficients). eval_chebyt/u and "
         "linalg.inv are sympy closed forms. The all-sizes index agreement planned in DESIGN was not built.",
    design="3 (C16)")

CLAIMED["C15"] = dict(
    level="proof",
    text=("The closed forms of the template class are proved against the same junction conditions the general solver is proved against (C02/C03/"
          "C06), specialised to the template EOS w+=wN (T/Tn)^mu, p+=pN+(w+-wN)/mu, w-=psiN wN (T/Tn)^nu: _findTm makes the energy flux equal on both "
          "sides; getVp solves the wall relation on both branches and the alpha(vp,vm) of _shooting is its inverse; wFromAlpha; findHydroBoundaries "
          "(c1, c2, velocityMid with the template EOS); __init__ definitions of alN, psiN, cb2, cs2, mu, nu, wN, pN; vJ and detonationVAndT in C06."
          " Also under contract: template findvwLTE (static sentinel exactly when p+(Tn)>p-(Tn) or the vacuum energy of the symmetric phase is non-positive, runaway sentinel reasons, bracketed root of the shooting residual), findMatching (window, bracket, residual, v-=min(cb,vw), alpha+ solves the wall relation, T+ from the enthalpy, T- from _findTm), matchDeflagOrHybInitial, minVelocity, _eqWall (3 nu _eqWall = E - R: entropy-derived vs energy-flux-derived enthalpy ratio), solveAlpha (bracket above 0 and above the vacuum bound, branch choice, tolerances), maxAl.<matching> (shock jump conditions at the front, alpha+ relation, _eqWall form)."
          " The bracket of the template findMatching ends below the point where the enthalpy w+ changes sign whenever that point lies inside (0, min(cs^2/vw, vw)) (lemma: the sign change is a root of an explicit quadratic Q). Class frame: no template method other than the constructor writes an attribute."
          " Both efficiencyFactor contracts and the template integratePlasma/_dxiAndWdv obligations (shared with C03) are discharged here as well."
          " The general solver's strongestShock/minVelocity obligations (bracket (vBracketLow, vJ), residual, sentinel) are discharged here as well (shared with C06)."),
    note=COMMON_NOTE + " Power laws used for symbolic exponents: b^(x+y)=b^x b^y, b^(-x)=1/b^x, (b^x)^y=b^(xy), (ab)^x=a^x b^x offered only as a conditional law "
         "(all factors positive => equal; nothing is assumed about their signs). Not decided: numerical agreement of the two root finders to tolerance, uniqueness of the physical root, vwLTE/kappa agreement.",
    design="3 (C15)")
CLAIMED["C18"] = dict(
    level="other",
    text=("BOUNDED stand-in, not a proof: the real mask/dispatch code of InterpolatableFunction interpreted on symbolic inputs of at most 2 entries "
          "(scalar, (2,), (1,2)), 1- and 2-component functions, all 16 mode pairs, spline and function uninterpreted: evaluate returns the input "
          "shape with S(x) inside and exactly the mode's prescription outside (ERROR raises ValueError), derivative follows the same rule entry by "
          "entry, non-finite rows are dropped individually, setExtrapolationType rebuilds the spline from the same table with extrapolation iff a "
          "side is FUNCTION from any previous pair, range = min/max of kept points. F4a/b/c found here were fixed in the repository."
          " _interpolate with the real _dropBadPoints inlined (4-row tables, every pattern of non-finite rows leaving >= 2 rows): table, spline, derivative splines and reported range are those of the kept rows."
          " extendInterpolationTable on a 3-row table (0 or 2 new points per side, all 16 combinations): new lower points ++ old rows with their old values ++ new upper points, ordinates belong to their abscissae, strictly increasing, function evaluated only at the new points, adaptive bookkeeping reset."
          " Outside the table derivative() differentiates the mode-respecting evaluation (_evaluateOutOfBounds of the same object), at the out-of-range entries only."),
    note="Bound: array length <= 2, rank <= 2, components <= 2. Not decided: spline accuracy, adaptive updates, extendInterpolationTable "
         "(np.arange with symbolic bounds), file round trip." + " File round trip (bounded, file system stubbed): rows are abscissa then values, single-space delimiter, a format with >= 15 significant digits (precondition of the assumed text round trip), what is read back is installed unchanged. The numerical effect of formatting itself is not modelled.",
    design="3 (C18)")

CLAIMED["C07"] = dict(
    level="proof",
    text=("Relational (two-run) covariance obligations discharged on the summaries of the real functions: with every dimensionful input "
          "multiplied by lam^dim and every model/EOS callback rescaled by its homogeneity, for EVERY lam>0 each output is multiplied by lam^(its "
          "dimension) and every branch decision is unchanged. Covered: all Thermodynamics EOS functions, setExtrapolate (mu:0, a:4-mu, epsilon:4) and "
          "alpha; Hydrodynamics vpvmAndvpovm, matchDeton, matchDeflagOrHyb (both modes), temperature mappings, findHydroBoundaries (c1,c2: 4), shockDE; "
          "template __init__ (alN, psiN, cb2, cs2, mu, nu dimensionless; wN, pN, epsilon pressures), vJ, getVp, _findTm, boundary constants; EOM "
          "plasmaVelocity, T33 balance, wallProfile (field, field/length), _updateGrid (lengths), the initial wall 5/Tn, and the bounds handed to "
          "Nelder-Mead (each has the dimension of the parameter it bounds); WallGoManager.buildGrid (lengths in units of 1/Tn); both grid maps."
          " The wall-action minimiser's stopping rule is unit safe (Nelder-Mead or Powell; gradient-based methods with absolute default tolerances are refused)."
          " The declared absolute-tolerance site of findPlasmaProfilePoint is checked against the code: the only comparison involving Tnucl is |Tnucl - Tplus| < 1e-10."),
    note=COMMON_NOTE + " The premise of the property (the potential, masses and EOS are rescaled accordingly) enters as homogeneity of the spec "
         "functions. Declared absolute-tolerance sites are listed in the evidence as assumptions, not proved harmless: xtol=atol on temperature root "
         "finds, pressAbsErrTol=1e-8, |Tn-T+|<1e-10 and xtol=1e-10 in findPlasmaProfilePoint, the 1e50 literal in vpvmAndvpovm. Not covered: "
         "phase tracing (freeEnergy/effectivePotential tolerances, incl. the absolute gradient tolerance of the minimiser), the pressure iteration.",
    design="3 (C07)")
CLAIMED["C08"] = dict(
    level="proof",
    text=("Relational covariance obligations on summaries for two fields, every translation vector (symbolic shifts), every sign pattern (symbolic "
          "signs with s^2=1) and the swap, with potential / gradient / masses transformed consistently: wallProfile returns A fields + b and A dPhidz; "
          "EOM.action is invariant; the pressure integrand of _intermediatePressureResults is invariant under translation+reflection; the T33 balance is "
          "invariant; _updateGrid passes the same thickness, centre and tails when widths/offsets are swapped."
          " The box handed to the wall-action minimiser is the configured two-sided one (widths between wallThicknessBounds/Tn, free offsets between wallOffsetBounds)."
          " _updateGrid: the grid's wall region is the envelope of the walls of all fields (shared with C09)."),
    note=COMMON_NOTE + " Premise: callbacks transformed consistently. Declared site: the first offset is pinned to 0, so the swap is not applied to the "
         "minimisation in _intermediatePressureResults. Not decided: Nelder-Mead / phase tracer / BFGS behaviour under relabelling, more than two fields.",
    design="3 (C08)")

NOT_APPLICABLE = {
    "C11": "RK45 phase tracing interleaved with BFGS re-minimisation on an arbitrary potential: the content is the numerical behaviour of external routines; no contract within reach expresses or decides it (DESIGN section 4)",
    "C20": "values of improper integrals of transcendental integrands, 2x10000 table rows and quad: not decidable by SMT; checking rows against the integral is numerical testing, a different family (DESIGN section 4)",
}

ALL = [f"C{i:02d}" for i in range(1, 21)]


def main():
    checks = []
    for pid in ALL:
        if pid not in CLAIMED:
            continue
        c = CLAIMED[pid]
        checks.append({
            "property_id": pid,
            "quick_cmd": f"./check {pid} --tier quick",
            "thorough_cmd": f"./check {pid} --tier thorough",
            "evidence_file": f"evidence/{pid}.json",
            "replay_cmd_template": f"./check {pid} --replay {{path}}",
            "engine": "wgvc",
            "level_claimed": {"category": c["level"], "text": c["text"], "design_ref": c["design"]},
            "level_note": c["note"],
            "technique": c.get("technique", TECH),
        })
    na = []
    for pid in ALL:
        if pid in CLAIMED:
            continue
        na.append({"property_id": pid,
                   "reason": NOT_APPLICABLE.get(pid, "contracts for this property are not built yet (work in progress, see DESIGN.md section 3)")})
    m = {
        "version": 1,
        "setup_cmd": "./check --self-check",
        "hooks": {
            "guard": "WALLGO_VERIF",
            "enable": "no hooks are needed: contracts are sidecar files under /verif/contracts and the real source under /repo/src/WallGo is re-parsed on every run",
            "baseline_off_cmd": "cd /repo && /venv/bin/python -m pytest -ra -q -p no:cacheprovider --timeout=900 --continue-on-collection-errors",
            "source_commits": [],
            "add_only": True,
        },
        "engines": [{
            "name": "wgvc", "path": "wgvc/",
            "serves_properties": sorted(CLAIMED),
            "kind_free_text": "own VC generator: symbolic interpreter over the real Python AST + sidecar contracts; obligations discharged by z3 5.1 (cvc5 1.0 / z3 4.8 as fallback and second opinion)",
        }],
        "checks": checks,
        "not_applicable": na,
        "notes": "exit codes: 0 held, 1 VIOLATION, 2 undecided (never a VIOLATION line), 3 checker fault. KNOWN_FINDINGS.txt lists known:/fixed: lines.",
    }
    with open(os.path.join(HERE, "MANIFEST.json"), "w") as fh:
        json.dump(m, fh, indent=1)
    print(f"claimed {len(checks)}, not applicable {len(na)}")


if __name__ == "__main__":
    main()
