#!/usr/bin/env python3
"""Regenerate MANIFEST.json from the table below (run from /verif)."""
import json
import os

HERE = os.path.dirname(os.path.dirname(os.path.abspath(__file__)))

TECH = "contract-based deductive verification: VCs generated from the real AST (wgvc), discharged by z3/cvc5"

CLAIMED = {
    "C10": dict(
        level="proof",
        text=("Every obligation generated from the current source of the 14 EOS methods, setExtrapolate and alpha is "
              "discharged (unsat of the negated goal) for all real temperatures, range ends and free-energy values: "
              "e=T dp-p, w=T dp, de=de/dT, csq*de=dp in all three regions; dp and ddp are the derivatives of the reported "
              "p and dp in all three regions; p=-f inside; p, dp, ddp continuous at all four range ends after "
              "setExtrapolate (pins all 12 extrapolation coefficients)."),
        note=("Assumed: FreeEnergy(T).veffValue is f(T) and FreeEnergy.derivative(T,k) its k-th derivative (spline contract); "
              "floats are reals; every denominator occurring is non-zero; for symbolic exponents only b**(x+y)=b**x*b**y, "
              "b**(-x)=1/b**x and b>0 => b**x>0. Trusted: wgvc interpreter/encoder, sympy normalisation and diff, z3."),
        design="3 (C10)"),
}

NOT_APPLICABLE = {
    "C11": "RK45 phase tracing interleaved with BFGS re-minimisation on an arbitrary potential: the content is the numerical behaviour of external routines; no contract within reach expresses or decides it (DESIGN section 4)",
    "C20": "values of improper integrals of transcendental integrands, 2x10000 table rows and quad: not decidable by SMT; checking rows against the integral is numerical testing, a different family (DESIGN section 4)",
}

ALL = [f"C{i:02d}" for i in range(1, 21)]


def main():
    checks = []
    for pid in ALL:
        if pid not in CLAIMED:
            continue
        c = CLAIMED[pid]
        checks.append({
            "property_id": pid,
            "quick_cmd": f"./check {pid} --tier quick",
            "thorough_cmd": f"./check {pid} --tier thorough",
            "evidence_file": f"evidence/{pid}.json",
            "replay_cmd_template": f"./check {pid} --replay {{path}}",
            "engine": "wgvc",
            "level_claimed": {"category": c["level"], "text": c["text"], "design_ref": c["design"]},
            "level_note": c["note"],
            "technique": c.get("technique", TECH),
        })
    na = []
    for pid in ALL:
        if pid in CLAIMED:
            continue
        na.append({"property_id": pid,
                   "reason": NOT_APPLICABLE.get(pid, "contracts for this property are not built yet (work in progress, see DESIGN.md section 3)")})
    m = {
        "version": 1,
        "setup_cmd": "./check --self-check",
        "hooks": {
            "guard": "WALLGO_VERIF",
            "enable": "no hooks are needed: contracts are sidecar files under /verif/contracts and the real source under /repo/src/WallGo is re-parsed on every run",
            "baseline_off_cmd": "cd /repo && /venv/bin/python -m pytest -ra -q -p no:cacheprovider --timeout=900 --continue-on-collection-errors",
            "source_commits": [],
            "add_only": True,
        },
        "engines": [{
            "name": "wgvc", "path": "wgvc/",
            "serves_properties": sorted(CLAIMED),
            "kind_free_text": "own VC generator: symbolic interpreter over the real Python AST + sidecar contracts; obligations discharged by z3 5.1 (cvc5 1.0 / z3 4.8 as fallback and second opinion)",
        }],
        "checks": checks,
        "not_applicable": na,
        "notes": "exit codes: 0 held, 1 VIOLATION, 2 undecided (never a VIOLATION line), 3 checker fault. KNOWN_FINDINGS.txt lists known:/fixed: lines.",
    }
    with open(os.path.join(HERE, "MANIFEST.json"), "w") as fh:
        json.dump(m, fh, indent=1)
    print(f"claimed {len(checks)}, not applicable {len(na)}")


if __name__ == "__main__":
    main()
