#!/bin/bash
# apply a python-scripted harmless edit to a scratch copy and run a check: usage harmless.sh <prop> <pyfile-with-edit>
S=/tmp/wgvc-harmless-$$; mkdir -p $S/src && cp -r /repo/src/WallGo $S/src/WallGo
/opt/veriftools/pyvenv/bin/python "$2" $S/src/WallGo || { echo "edit failed"; rm -rf $S; exit 9; }
cd /verif; WGVC_REPO=$S WGVC_OUT=$S/out ./check $1 2>&1 | grep -v "^WARNING\|^KNOWN" | tail -2 | cut -c1-200
rm -rf $S
