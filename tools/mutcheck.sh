#!/bin/sh
# usage: tools/mutcheck.sh <prop> <file-relative-to-src/WallGo> <python-regex-from> <to>   (scratch copy, removed afterwards)
set -e
S=/tmp/wgvc-scratch-$$
mkdir -p $S/src && cp -r /repo/src/WallGo $S/src/WallGo
/opt/veriftools/pyvenv/bin/python - "$S/src/WallGo/$2" "$3" "$4" <<'PY'
import sys,re
p,a,b=sys.argv[1:4]
s=open(p).read()
n=len(re.findall(a,s))
assert n>=1, f"pattern not found: {a}"
s2=re.sub(a,b,s,count=1)
assert s2!=s
open(p,'w').write(s2)
PY
cd /verif
WGVC_REPO=$S WGVC_OUT=$S/out ./check $1 2>&1 | grep -v "^WARNING" | cut -c1-220 | tail -${TAILN:-6} || true
rm -rf $S
