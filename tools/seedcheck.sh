#!/bin/bash
# tools/seedcheck.sh <pid> [name] [--notests] : confirm a seeded change from /tmp/seedwork/<pid> in a scratch worktree,
# run our check against it, and file it under /verif/seeded/<name>/
pid=$1; name=${2:-$pid}; src=/tmp/seedwork/$name
[ -d "$src" ] || src=/tmp/seedwork/$pid
[ -d "$src" ] || { mkdir -p /tmp/seedwork/$name; cp /verif/seeded/$name/patch.diff /verif/seeded/$name/demo.py /tmp/seedwork/$name/ 2>/dev/null; src=/tmp/seedwork/$name; }
W=/tmp/sc-$name-$$
git -C /repo worktree add -q $W HEAD || exit 3
cd $W
PY="env PYTHONPATH=$W/src /venv/bin/python"
$PY $src/demo.py $W > /tmp/sc-$name-clean.log 2>&1; clean=$?
git apply $src/patch.diff || { echo "patch does not apply"; git -C /repo worktree remove --force $W; exit 3; }
$PY $src/demo.py $W > /tmp/sc-$name-patched.log 2>&1; patched=$?
tests="skipped"
if [ "$3" != "--notests" ]; then
  $PY -m pytest -q -p no:cacheprovider --timeout=900 --continue-on-collection-errors -x -q 2>&1 | tail -3 > /tmp/sc-$name-tests.log
  $PY -m pytest -q -p no:cacheprovider --timeout=900 --continue-on-collection-errors 2>&1 | tail -1 > /tmp/sc-$name-tests.log
  tests=$(cat /tmp/sc-$name-tests.log)
fi
cd /verif
WGVC_REPO=$W WGVC_OUT=$W/.wgvc-out ./check $pid > /tmp/sc-$name-check.log 2>&1; rc=$?
out=$(grep -v "^WARNING" /tmp/sc-$name-check.log | tail -5)
mkdir -p /verif/seeded/$name
cp $src/patch.diff $src/demo.py /verif/seeded/$name/
[ -f $src/notes.md ] && cp $src/notes.md /verif/seeded/$name/
python3 - "$pid" "$name" "$clean" "$patched" "$tests" "$rc" <<PY
import json,sys
pid,name,clean,patched,tests,rc=sys.argv[1:7]
out=open('/dev/stdin').read() if False else ""
meta={"property":pid,"name":name,"demo_exit_clean":int(clean),"demo_exit_patched":int(patched),"pinned_tests_with_patch":tests,
      "our_check_exit_on_patched_tree":int(rc),"detected":int(rc)==1,
      "ran":["demo.py on clean scratch worktree","git apply patch.diff","demo.py on patched worktree","pinned test suite on patched worktree","./check %s with WGVC_REPO=<patched worktree>"%pid]}
try:
    old=json.load(open(f'/verif/seeded/{name}/meta.json')); meta["needs_to_manifest"]=old.get("needs_to_manifest","see notes.md")
    if tests=="skipped" and old.get("pinned_tests_with_patch","skipped")!="skipped":
        meta["pinned_tests_with_patch"]=old["pinned_tests_with_patch"]
except Exception: meta["needs_to_manifest"]="see notes.md"
json.dump(meta,open(f'/verif/seeded/{name}/meta.json','w'),indent=1)
print(json.dumps(meta))
PY
echo "$out"
git -C /repo worktree remove --force $W
