#!/bin/bash
# tools/sweep_seeds.sh : re-verify every filed seed against the current checks (no pinned test-suite run), print one line per seed
cd /verif
for d in seeded/*/; do
  name=$(basename $d); pid=${name:0:3}
  mkdir -p /tmp/seedwork/$name; cp $d/patch.diff $d/demo.py /tmp/seedwork/$name/ 2>/dev/null
  r=$(tools/seedcheck.sh $pid $name --notests 2>&1 | grep -o '"our_check_exit_on_patched_tree": [0-9]*, "detected": [a-z]*')
  echo "$name $r"
done
