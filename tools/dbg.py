"""debug: run one contract builder function and print timings: python3-vt tools/dbg.py C02 c_matchDeton"""
import sys, time, importlib
sys.path.insert(0, '/verif')
from wgvc.api import Check
from wgvc import smt, interp
import wgvc.main as M
prop, fn = sys.argv[1], sys.argv[2]
mods = M.contract_modules()
mod = importlib.import_module(mods[prop])
chk = Check(prop)
t=time.time()
calls={'n':0,'t':0.0}
orig=smt.quick_sat
def timed(facts, timeout_ms=1500):
    t0=time.time(); r=orig(facts, timeout_ms); calls['n']+=1; calls['t']+=time.time()-t0; return r
smt.quick_sat=timed; interp.quick_sat=timed
import contracts
for m in list(sys.modules.values()):
    if getattr(m,'quick_sat',None) is orig: m.quick_sat=timed
getattr(mod, fn)(chk)
print(f"build {time.time()-t:.1f}s paths={chk.path_count} vcs={len(chk.vcs)} quick_sat calls={calls['n']} time={calls['t']:.1f}s undecided={chk.undecided}")
if '--run' in sys.argv:
    t=time.time(); chk.run(); print(f"discharge {time.time()-t:.1f}s")
    for v in chk.vcs:
        flag = '' if v.ok else '   <=== '
        print(f"{v.verdict:8s} {v.seconds:6.2f}s {v.backend:7s} {v.name} {flag}{v.detail[:80]}")
