"""Big-step symbolic interpreter over the real Python AST (DESIGN section 2.1).

One *run* follows one path; a symbolic branch condition is decided by a script of earlier
decisions (depth-first enumeration by re-execution, fresh names are deterministic per
path).  Infeasible sides are pruned with the solver.
"""
from __future__ import annotations

import ast
import itertools
from dataclasses import dataclass, field

import numpy as np
import sympy as sp
from sympy.logic.boolalg import Boolean, BooleanTrue, BooleanFalse

from . import source, sym
from .smt import quick_sat


# --------------------------------------------------------------------------- control exceptions
class Undecided(Exception):
    """Construct outside the interpreted subset: the check exits 2, never a violation."""


class Infeasible(Exception):
    pass


class PathEnd(Exception):
    """The path was ended by the verifier (e.g. after checking a loop body)."""


class LoopBound(Exception):
    pass


class _Return(Exception):
    def __init__(self, value):
        self.value = value


class _Break(Exception):
    pass


class _Continue(Exception):
    pass


class PyExc(Exception):
    """A Python exception raised by the interpreted program."""

    def __init__(self, cls: str, args=(), value=None):
        super().__init__(cls)
        self.cls = cls
        self.xargs = tuple(args)
        self.value = value

    def __repr__(self):
        return f"PyExc({self.cls})"


_EXC_BASES = {
    "WallGoError": "Exception", "WallGoPhaseValidationError": "WallGoError",
    "CollisionLoadError": "Exception",
    "ValueError": "Exception", "TypeError": "Exception", "IndexError": "LookupError",
    "KeyError": "LookupError", "LookupError": "Exception", "AssertionError": "Exception",
    "ZeroDivisionError": "ArithmeticError", "ArithmeticError": "Exception",
    "RuntimeError": "Exception", "NotImplementedError": "RuntimeError",
    "FileNotFoundError": "OSError", "OSError": "Exception", "AttributeError": "Exception",
    "LinAlgError": "ValueError", "FloatingPointError": "ArithmeticError",
    "Exception": "BaseException", "BaseException": None,
}


def exc_is(cls: str, handler: str) -> bool:
    c = cls
    while c is not None:
        if c == handler:
            return True
        c = _EXC_BASES.get(c, "Exception" if c not in ("Exception", "BaseException") else None)
    return False


# --------------------------------------------------------------------------- values
class SymObj:
    """A symbolic object: attribute map plus the repository class it is an instance of."""

    def __init__(self, cls: str | None = None, module: str | None = None, attrs: dict | None = None,
                 label: str = "", open_: bool = False, rest: str = ""):
        self.cls = cls
        self.rest = rest         # "stale": attributes the pre-state does not declare hold whatever earlier calls left (Stale)
        self.module = module if module is not None else (source.class_module(cls) if cls else None)
        self.attrs = dict(attrs or {})
        self.label = label or (cls or "obj")
        self.open = open_
        self.writes: list = []   # attribute names stored during the run (ghost)

    def __repr__(self):
        return f"<{self.label}>"


@dataclass
class Closure:
    node: ast.AST
    env: "Env"
    module: str
    qualname: str
    self_obj: object = None
    attrs: dict = field(default_factory=dict)

    def __repr__(self):
        return f"<closure {self.qualname}>"


@dataclass
class BoundMethod:
    obj: object
    name: str


@dataclass
class SuperProxy:
    """super() inside a method of ``cls`` (module ``module``) called on ``obj``: attribute lookup starts at the first base class"""
    obj: object
    module: str
    cls: str


@dataclass(frozen=True)
class External:
    dotted: str


@dataclass(frozen=True)
class ClassRef:
    module: str
    name: str


@dataclass(frozen=True)
class EnumVal:
    cls: str
    name: str


@dataclass(frozen=True)
class ExcClass:
    name: str


@dataclass(frozen=True)
class PyBuiltin:
    name: str


class Native:
    """A callable supplied by a contract (e.g. the function under differentiation): ``fn(it, args, kwargs)``."""

    def __init__(self, fn, label="native"):
        self.fn, self.label = fn, label

    def __repr__(self):
        return f"<native {self.label}>"


class Opaque:
    """A value the interpreter carries around but knows nothing about."""

    def __init__(self, label):
        self.label = label

    def __repr__(self):
        return f"<opaque {self.label}>"


class Stale:
    """State left behind by an earlier call on the same object.  Reading it in a branch or in arithmetic is a
    failed frame obligation (the result would depend on call history)."""

    def __init__(self, label, owner=None):
        self.label = label
        self.owner = owner       # label of the object whose undeclared attribute this is (stores through it are stores on the owner)

    def __repr__(self):
        return f"<stale {self.label}>"


class Env:
    def __init__(self, parent=None, module=None):
        self.vars: dict = {}
        self.parent = parent
        self.module = module if module is not None else (parent.module if parent else None)

    def lookup(self, name):
        e = self
        while e is not None:
            if name in e.vars:
                return e.vars[name]
            e = e.parent
        raise KeyError(name)

    def has(self, name):
        try:
            self.lookup(name)
            return True
        except KeyError:
            return False


BUILTIN_NAMES = {"float", "int", "len", "min", "max", "abs", "pow", "isinstance", "range", "enumerate",
                 "zip", "tuple", "list", "sum", "str", "print", "any", "all", "bool", "round", "dict",
                 "sorted", "reversed", "map", "set", "type", "getattr", "hasattr", "callable", "complex",
                 "super", "repr", "id", "iter", "next", "divmod", "slice"}


def _written_outside_constructor(module: str, cls: str, name: str) -> bool:
    from .effects import frame_of
    mi = source.load_module(module)
    cdef = mi.classes.get(cls)
    if cdef is None:
        return True
    for st in cdef.body:
        if isinstance(st, ast.FunctionDef) and st.name != "__init__":
            f = frame_of(module, cls, st.name)
            if name in f["stores"] or f"{name}[...]" in f["stores"]:
                return True
    return False


# --------------------------------------------------------------------------- the interpreter
class Interp:
    def __init__(self, script=None, registry=None, externals=None, loop_specs=None, config=None, block_specs=None):
        self.block_specs = block_specs or {}
        self.script: list = list(script or [])
        self.ptr = 0
        self.pc: list = []
        self.events: list = []       # ghost events (external calls, contract calls, stores)
        self.obligs: list = []       # (name, facts, goal, kind) emitted on this path
        self.assumed: list = []      # human readable assumptions used on this path
        self.registry = registry or {}
        self.externals = externals or {}
        self.loop_specs = loop_specs or {}
        self.cfg = dict(max_unroll=12, prune=True, max_depth=60, fork_abs=False, fork_minmax=False, prune_ms=400)
        self.cfg.update(config or {})
        self._fresh = {}
        self.depth = 0
        self.inlined: set = set()
        self.callstack: list = []
        self.dropped: set = set()    # constructs dropped (logging, regulariser literals ...)
        self._module_envs: dict = {}
        self.int_arrays: dict = {}   # id -> array: arrays of integer dtype (the one dtype distinction that is modelled)

    # ---- fresh names
    def fresh_name(self, base: str) -> str:
        n = self._fresh.get(base, 0)
        self._fresh[base] = n + 1
        return f"{base}#{n}" if n else base

    def fresh_real(self, base: str):
        return sym.real(self.fresh_name(base))

    def fresh_int(self, base: str):
        return sym.integer(self.fresh_name(base))

    def fresh_bool(self, base: str):
        return sym.boolean(self.fresh_name(base))

    # ---- path condition
    def assume(self, cond) -> None:
        cond = sym.to_sym(cond)
        if cond is sp.true:
            return
        if cond is sp.false:
            raise Infeasible()
        self.pc.append(cond)

    def decide(self, cond) -> bool:
        cond = sym.to_sym(cond)
        if cond is sp.true:
            return True
        if cond is sp.false:
            return False
        if not isinstance(cond, Boolean) or (isinstance(cond, sp.Symbol) and not cond.name.startswith("?")):
            raise Undecided(f"branch on non-boolean term {cond}")
        i = self.ptr
        self.ptr += 1
        if i < len(self.script):
            choice = self.script[i]
        else:
            choice = True
            self.script.append(True)
        self.pc.append(cond if choice else sp.Not(cond))
        if self.cfg["prune"]:
            if quick_sat(self.pc, self.cfg["prune_ms"]) == "unsat":
                raise Infeasible()
        return choice

    def decide_free(self) -> bool:
        """Verifier-level fork that adds nothing to the path condition."""
        i = self.ptr
        self.ptr += 1
        if i < len(self.script):
            return self.script[i]
        self.script.append(True)
        return True

    def oblige(self, name: str, goal, kind="safety", extra_facts=()):
        self.obligs.append((name, list(self.pc) + list(extra_facts), sym.to_sym(goal), kind))

    def event(self, **kw):
        self.events.append(kw)

    # ---- module environments
    def module_env(self, module: str) -> Env:
        if module not in self._module_envs:
            self._module_envs[module] = Env(module=module)
        return self._module_envs[module]

    def resolve_global(self, module: str, name: str):
        mi = source.load_module(module)
        menv = self.module_env(module)
        if name in menv.vars:
            return menv.vars[name]
        if name in mi.functions and "." not in name:
            fi = mi.functions[name]
            v = Closure(fi.node, menv, module, name)
        elif name in mi.classes:
            v = self._classref(module, name)
        elif name in mi.constants:
            v = self.eval(mi.constants[name], menv)
        elif name in mi.imports:
            v = self._resolve_dotted(mi.imports[name])
        elif name in BUILTIN_NAMES:
            v = PyBuiltin(name)
        elif name in _EXC_BASES:
            v = ExcClass(name)
        elif name in ("True", "False", "None"):
            v = {"True": True, "False": False, "None": None}[name]
        elif name in ("NotImplemented", "Ellipsis"):
            v = Opaque(name)
        else:
            raise Undecided(f"unresolved name {name} in module {module}")
        menv.vars[name] = v
        return v

    def _classref(self, module, name):
        mi = source.load_module(module)
        c = name
        # exception classes defined by the package
        chain = set()
        while c and c not in chain:
            chain.add(c)
            if c in ("Exception", "BaseException") or c in _EXC_BASES and c not in mi.classes:
                return ExcClass(name)
            bases = mi.bases.get(c, [])
            c = bases[0].split(".")[-1] if bases else None
        return ClassRef(module, name)

    def _resolve_dotted(self, dotted: str):
        if dotted.startswith("WallGo."):
            parts = dotted.split(".")
            # WallGo.<module>.<name>  or WallGo.<module>
            for k in range(len(parts) - 1, 0, -1):
                mod = ".".join(parts[1:k + 1])
                try:
                    source.load_module(mod)
                except source.SourceError:
                    continue
                rest = parts[k + 1:]
                if not rest:
                    return External(dotted)
                return self.resolve_global(mod, rest[0])
            return External(dotted)
        return External(dotted)

    # ---- function calls
    def call_closure(self, clo: Closure, args: list, kwargs: dict):
        node = clo.node
        if self.depth > self.cfg["max_depth"]:
            raise Undecided("call depth exceeded")
        env = Env(parent=clo.env, module=clo.module)
        a = node.args
        params = [p.arg for p in a.posonlyargs + a.args]
        pos = list(args)
        if clo.self_obj is not None:
            pos = [clo.self_obj] + pos
        defaults = a.defaults
        ndef = len(defaults)
        for i, p in enumerate(params):
            if i < len(pos):
                env.vars[p] = pos[i]
            elif p in kwargs:
                env.vars[p] = kwargs.pop(p)
            else:
                j = i - (len(params) - ndef)
                if j < 0:
                    raise PyExc("TypeError", (f"missing argument {p} for {clo.qualname}",))
                env.vars[p] = self.eval(defaults[j], clo.env)
        if len(pos) > len(params):
            if a.vararg:
                env.vars[a.vararg.arg] = tuple(pos[len(params):])
            else:
                raise PyExc("TypeError", (f"too many arguments for {clo.qualname}",))
        elif a.vararg:
            env.vars[a.vararg.arg] = ()
        for p, d in zip(a.kwonlyargs, a.kw_defaults):
            if p.arg in kwargs:
                env.vars[p.arg] = kwargs.pop(p.arg)
            elif d is not None:
                env.vars[p.arg] = self.eval(d, clo.env)
            else:
                raise PyExc("TypeError", (f"missing keyword argument {p.arg}",))
        if a.kwarg:
            env.vars[a.kwarg.arg] = dict(kwargs)
        elif kwargs:
            raise PyExc("TypeError", (f"unexpected keyword arguments {list(kwargs)} for {clo.qualname}",))
        self.depth += 1
        self.callstack.append(clo.qualname)
        try:
            if isinstance(node, ast.Lambda):
                return self.eval(node.body, env)
            try:
                self.exec_block(node.body, env, clo)
            except _Return as r:
                return r.value
            return None
        finally:
            self.depth -= 1
            self.callstack.pop()

    def call(self, f, args: list, kwargs: dict, node=None):
        if isinstance(f, Closure):
            key = f.qualname
            if key in self.registry:
                return self.registry[key](self, f.self_obj, args, kwargs)
            return self.call_closure(f, args, kwargs)
        if isinstance(f, BoundMethod) and isinstance(f.obj, SuperProxy):
            sp_ = f.obj
            mi = source.load_module(sp_.module)
            fi = None
            for b in mi.bases.get(sp_.cls, []):
                b = b.split(".")[-1]
                if b in mi.classes:
                    fi = source.find_method(sp_.module, b, f.name)
                else:
                    dotted = mi.imports.get(b)
                    if dotted and dotted.startswith("WallGo."):
                        parts = dotted.split(".")
                        fi = source.find_method(".".join(parts[1:-1]), parts[-1], f.name)
                if fi is not None:
                    break
            if fi is None:
                raise Undecided(f"super().{f.name} not found above {sp_.cls}")
            key = f"{fi.qualname.split('.')[0]}.{f.name}"
            if key in self.registry:
                return self.registry[key](self, sp_.obj, args, kwargs)
            self.inlined.add(f"{fi.module}.{fi.qualname}")
            clo = Closure(fi.node, self.module_env(fi.module), fi.module, fi.qualname, self_obj=sp_.obj)
            return self.call_closure(clo, args, kwargs)
        if isinstance(f, BoundMethod):
            return self.call_method(f.obj, f.name, args, kwargs, node)
        if isinstance(f, External):
            return self.call_external(f.dotted, args, kwargs, node)
        if isinstance(f, PyBuiltin):
            from . import builtins_model
            return builtins_model.call_builtin(self, f.name, args, kwargs)
        if isinstance(f, ExcClass):
            return PyExc(f.name, args)
        if isinstance(f, ClassRef):
            return self.instantiate(f, args, kwargs)
        if isinstance(f, SymObj):
            return self.call_method(f, "__call__", args, kwargs, node)
        if isinstance(f, Native):
            return f.fn(self, args, kwargs)
        if callable(f):       # python-level bound methods of lists/dicts, registry callables
            return f(*args, **kwargs)
        raise Undecided(f"call of {f!r}")

    def call_external(self, dotted, args, kwargs, node=None):
        h = self.externals.get(dotted)
        if h is None:
            from . import npmodel
            h = npmodel.HANDLERS.get(dotted)
        if h is None:
            head = dotted.split(".")[0]
            if head in ("logging", "warnings"):
                self.dropped.add(head)
                return None
            raise Undecided(f"no contract or model for external {dotted}")
        return h(self, args, kwargs)

    def call_method(self, obj, name, args, kwargs, node=None):
        if isinstance(obj, SymObj):
            key = f"{obj.cls}.{name}"
            if key in self.registry:
                return self.registry[key](self, obj, args, kwargs)
            fi = source.find_method(obj.module, obj.cls, name) if obj.cls and obj.module else None
            if fi is None:
                raise Undecided(f"method {key} not found and no contract")
            owner = fi.qualname.split(".")[0]
            key2 = f"{owner}.{name}"
            if key2 in self.registry:
                return self.registry[key2](self, obj, args, kwargs)
            self.inlined.add(f"{fi.module}.{fi.qualname}")
            decos = [ast.unparse(d) for d in fi.node.decorator_list]
            selfarg = None if "staticmethod" in decos else obj
            if "classmethod" in decos:
                selfarg = ClassRef(fi.module, owner)
            clo = Closure(fi.node, self.module_env(fi.module), fi.module, fi.qualname, self_obj=selfarg)
            return self.call_closure(clo, args, kwargs)
        from . import builtins_model
        return builtins_model.call_value_method(self, obj, name, args, kwargs)

    def instantiate(self, cref: ClassRef, args, kwargs):
        key = f"{cref.name}.__new__"
        if key in self.registry:
            return self.registry[key](self, cref, args, kwargs)
        mi = source.load_module(cref.module)
        cdef = mi.classes[cref.name]
        obj = SymObj(cref.name, cref.module, label=self.fresh_name(cref.name))
        init = source.find_method(cref.module, cref.name, "__init__")
        if init is not None:
            self.call_method(obj, "__init__", args, kwargs)
            return obj
        # dataclass-style: annotated fields in order
        fields = []
        for st in cdef.body:
            if isinstance(st, ast.AnnAssign) and isinstance(st.target, ast.Name):
                fields.append((st.target.id, st.value))
        if not fields and not args and not kwargs:
            return obj
        pos = list(args)
        for i, (fname, default) in enumerate(fields):
            if i < len(pos):
                obj.attrs[fname] = pos[i]
            elif fname in kwargs:
                obj.attrs[fname] = kwargs[fname]
            elif default is not None:
                obj.attrs[fname] = self.eval(default, self.module_env(cref.module))
            else:
                raise PyExc("TypeError", (f"missing field {fname}",))
        post = source.find_method(cref.module, cref.name, "__post_init__")
        if post is not None:
            self.call_method(obj, "__post_init__", [], {})
        return obj

    # ---- attribute access
    def getattr(self, v, name, node=None):
        if isinstance(v, SuperProxy):
            return BoundMethod(v, name)
        if isinstance(v, SymObj):
            if name in v.attrs:
                return v.attrs[name]
            if name == "__class__" and v.cls and v.module:
                return ClassRef(v.module, v.cls)
            if v.cls and v.module and source.find_method(v.module, v.cls, name) is not None:
                fi = source.find_method(v.module, v.cls, name)
                decos = [ast.unparse(d) for d in fi.node.decorator_list]
                if "property" in decos:
                    return self.call_method(v, name, [], {})
                return BoundMethod(v, name)
            if f"{v.cls}.{name}" in self.registry:
                return BoundMethod(v, name)
            if v.cls and v.module:
                # class-level constant
                mi = source.load_module(v.module)
                cdef = mi.classes.get(v.cls)
                if cdef is not None:
                    for st in cdef.body:
                        if isinstance(st, ast.Assign) and any(isinstance(t, ast.Name) and t.id == name for t in st.targets):
                            return self.eval(st.value, self.module_env(v.module))
                        if isinstance(st, ast.AnnAssign) and isinstance(st.target, ast.Name) and st.target.id == name and st.value is not None:
                            return self.eval(st.value, self.module_env(v.module))
            if v.open:
                val = sym.real(f"{v.label}.{name}")
                v.attrs[name] = val
                return val
            if v.rest == "stale":
                # an attribute the contract's pre-state does not declare.  If some method other than the constructor writes it (or stores
                # into it), it is state that survives between calls: Stale (reading it is a failed frame obligation).  If only the
                # constructor sets it, it is a constant of the object the contract does not know about: not judged (undecided).
                if v.cls and v.module and not _written_outside_constructor(v.module, v.cls, name):
                    raise Undecided(f"{v.label}.{name}: attribute not declared in the contract's pre-state (written by the constructor only)")
                val = Stale(f"{v.label}.{name}", owner=v.label)
                v.attrs[name] = val
                return val
            raise PyExc("AttributeError", (f"{v.label} has no attribute {name}",))
        if isinstance(v, External):
            dotted = f"{v.dotted}.{name}"
            from . import npmodel
            if dotted in npmodel.CONSTANTS:
                return npmodel.CONSTANTS[dotted]
            return External(dotted)
        if isinstance(v, ClassRef) and name in ("__name__", "__qualname__"):
            return v.name
        if isinstance(v, ClassRef):
            mi = source.load_module(v.module)
            cdef = mi.classes[v.name]
            bases = mi.bases.get(v.name, [])
            for st in cdef.body:
                if isinstance(st, ast.Assign) and any(isinstance(t, ast.Name) and t.id == name for t in st.targets):
                    if any(b.split(".")[-1] in ("Enum", "IntEnum", "Flag") for b in bases):
                        return EnumVal(v.name, name)
                    return self.eval(st.value, self.module_env(v.module))
                if isinstance(st, ast.AnnAssign) and isinstance(st.target, ast.Name) and st.target.id == name and st.value is not None:
                    return self.eval(st.value, self.module_env(v.module))
            fi = source.find_method(v.module, v.name, name)
            if fi is not None:
                decos = [ast.unparse(d) for d in fi.node.decorator_list]
                selfarg = v if "classmethod" in decos else None
                key = f"{v.name}.{name}"
                clo = Closure(fi.node, self.module_env(fi.module), fi.module, fi.qualname, self_obj=selfarg)
                return clo
            raise PyExc("AttributeError", (f"class {v.name} has no attribute {name}",))
        if isinstance(v, Closure):
            if name in v.attrs:
                return v.attrs[name]
            raise PyExc("AttributeError", (name,))
        if isinstance(v, EnumVal):
            if name == "name":
                return v.name
            if name == "value":
                return Opaque(f"{v.cls}.{v.name}.value")
        if isinstance(v, PyExc):
            if name == "args":
                return v.xargs
        from . import builtins_model
        return builtins_model.value_getattr(self, v, name)

    def setattr(self, v, name, val):
        if isinstance(v, SymObj):
            v.attrs[name] = val
            v.writes.append(name)
            self.event(kind="store", obj=v.label, attr=name, value=val, where=self.callstack[-1] if self.callstack else "")
            return
        if isinstance(v, Closure):
            v.attrs[name] = val
            return
        if isinstance(v, Stale):
            self.event(kind="store", obj=v.owner or v.label, attr=f"{v.label}.{name}", value=val, where=self.callstack[-1] if self.callstack else "")
            return
        raise Undecided(f"attribute store on {type(v).__name__}")

    # ---- truth
    def truth(self, v) -> bool:
        if isinstance(v, Stale):
            self.oblige(f"no-read-of-stale-state.{v.label}", sp.false, kind="frame")
            return self.decide(self.fresh_bool(f"stale.{v.label}"))
        if isinstance(v, (bool, np.bool_)):
            return bool(v)
        if v is None:
            return False
        if isinstance(v, (BooleanTrue, BooleanFalse)):
            return bool(v)
        if (isinstance(v, Boolean) and not isinstance(v, sp.Symbol)) or (isinstance(v, sp.Symbol) and v.name.startswith("?")):
            return self.decide(v)
        if isinstance(v, sp.Basic):
            if v.is_number:
                return v != 0
            return self.decide(sym.Ne(v, 0))
        if isinstance(v, (int, float)):
            return v != 0
        if isinstance(v, (list, tuple, dict, str, set)):
            return len(v) > 0
        if isinstance(v, np.ndarray):
            if v.size == 1:
                return self.truth(v.reshape(-1)[0])
            raise PyExc("ValueError", ("truth value of an array with more than one element is ambiguous",))
        return True

    # ---- statements
    def exec_block(self, stmts, env, clo=None):
        specs = self.block_specs.get(clo.qualname) if (clo is not None and self.block_specs
                                                        and stmts is getattr(clo.node, "body", None)) else None
        if not specs:
            for st in stmts:
                self.exec(st, env, clo)
            return
        i = 0
        while i < len(stmts):
            hit = None
            for spec in specs:
                if spec.start(stmts[i]):
                    j = next((k for k in range(i + 1, len(stmts)) if spec.end(stmts[k])), None)
                    if j is None:
                        raise Undecided(f"block contract {spec.name}: end anchor not found in {clo.qualname}")
                    hit = (spec, j)
                    break
            if hit is None:
                self.exec(stmts[i], env, clo)
                i += 1
                continue
            spec, j = hit
            spec.check_frame(stmts[i:j])
            self.event(kind="block-contract", name=spec.name, where=clo.qualname)
            spec.apply(self, env)
            i = j

    def exec(self, st, env, clo=None):
        m = getattr(self, "x_" + type(st).__name__, None)
        if m is None:
            raise Undecided(f"statement {type(st).__name__} at line {st.lineno}")
        return m(st, env, clo)

    def x_Expr(self, st, env, clo):
        if isinstance(st.value, ast.Constant):
            return
        self.eval(st.value, env)

    def x_Pass(self, st, env, clo):
        return

    def x_Import(self, st, env, clo):
        return

    x_ImportFrom = x_Import
    x_Global = x_Import
    x_Nonlocal = x_Import

    def x_Return(self, st, env, clo):
        raise _Return(self.eval(st.value, env) if st.value is not None else None)

    def x_Break(self, st, env, clo):
        raise _Break()

    def x_Continue(self, st, env, clo):
        raise _Continue()

    def x_FunctionDef(self, st, env, clo):
        q = f"{clo.qualname}.<{st.name}>" if clo is not None else st.name
        env.vars[st.name] = Closure(st, env, env.module, q)

    def x_Assign(self, st, env, clo):
        v = self.eval(st.value, env)
        for t in st.targets:
            self.assign(t, v, env)

    def x_AnnAssign(self, st, env, clo):
        if st.value is None:
            return
        self.assign(st.target, self.eval(st.value, env), env)

    def x_AugAssign(self, st, env, clo):
        from .builtins_model import binop
        cur = self.eval(_as_load(st.target), env)
        val = self.eval(st.value, env)
        if isinstance(cur, np.ndarray) and isinstance(st.target, (ast.Name, ast.Attribute)):
            new = binop(self, st.op, cur, val)
            # in-place semantic of numpy: the same array object is updated (every alias of it sees the new values)
            if isinstance(new, np.ndarray) and new.shape == cur.shape:
                cur[...] = new
                if isinstance(st.target, ast.Attribute):
                    self.assign(st.target, cur, env)
                return
        self.assign(st.target, binop(self, st.op, cur, val), env)

    def assign(self, target, v, env):
        if isinstance(target, ast.Name):
            env.vars[target.id] = v
        elif isinstance(target, (ast.Tuple, ast.List)):
            items = self.iterate(v)
            star = [i for i, e in enumerate(target.elts) if isinstance(e, ast.Starred)]
            if star:
                i = star[0]
                n_after = len(target.elts) - i - 1
                for e, x in zip(target.elts[:i], items[:i]):
                    self.assign(e, x, env)
                self.assign(target.elts[i].value, list(items[i:len(items) - n_after]), env)
                for e, x in zip(target.elts[i + 1:], items[len(items) - n_after:]):
                    self.assign(e, x, env)
                return
            if len(items) != len(target.elts):
                raise PyExc("ValueError", (f"cannot unpack {len(items)} values into {len(target.elts)}",))
            for e, x in zip(target.elts, items):
                self.assign(e, x, env)
        elif isinstance(target, ast.Attribute):
            name = target.attr
            if name.startswith("__") and not name.endswith("__") and self._enclosing_class():
                name = f"_{self._enclosing_class().lstrip('_')}{name}"
            self.setattr(self.eval(target.value, env), name, v)
        elif isinstance(target, ast.Subscript):
            from .builtins_model import setitem
            setitem(self, self.eval(target.value, env), self.eval_index(target.slice, env), v)
        else:
            raise Undecided(f"assignment target {type(target).__name__}")

    def iterate(self, v) -> list:
        if isinstance(v, (list, tuple)):
            return list(v)
        if isinstance(v, np.ndarray):
            if v.ndim == 0:
                raise PyExc("TypeError", ("iteration over a 0-d array",))
            return [v[i] for i in range(v.shape[0])]
        if isinstance(v, (range, dict, set)):
            return list(v)
        if isinstance(v, (zip, enumerate, map)) or hasattr(v, "__next__"):
            return list(v)
        if isinstance(v, str):
            return list(v)
        if isinstance(v, SymObj) and "__iter_items__" in v.attrs:
            return list(v.attrs["__iter_items__"])
        raise Undecided(f"iteration over {type(v).__name__} {v!r}")

    def x_If(self, st, env, clo):
        if self.truth(self.eval(st.test, env)):
            self.exec_block(st.body, env, clo)
        else:
            self.exec_block(st.orelse, env, clo)

    def x_Assert(self, st, env, clo):
        if not self.truth(self.eval(st.test, env)):
            raise PyExc("AssertionError", (ast.unparse(st.test),))

    def x_Raise(self, st, env, clo):
        if st.exc is None:
            cur = env.has("__current_exc__") and env.lookup("__current_exc__")
            if cur:
                raise cur
            raise Undecided("bare raise outside handler")
        v = self.eval(st.exc, env)
        if isinstance(v, ExcClass):
            v = PyExc(v.name)
        if isinstance(v, PyExc):
            raise v
        raise Undecided(f"raise of {v!r}")

    def x_Try(self, st, env, clo):
        try:
            try:
                self.exec_block(st.body, env, clo)
            except PyExc as exc:
                for h in st.handlers:
                    if self._handler_matches(h, exc, env):
                        if h.name:
                            env.vars[h.name] = exc
                        env.vars["__current_exc__"] = exc
                        self.exec_block(h.body, env, clo)
                        break
                else:
                    raise
            else:
                self.exec_block(st.orelse, env, clo)
        finally:
            if st.finalbody:
                self.exec_block(st.finalbody, env, clo)

    def _handler_matches(self, h, exc, env):
        if h.type is None:
            return True
        t = self.eval(h.type, env)
        ts = t if isinstance(t, (tuple, list)) else [t]
        for x in ts:
            nm = x.name if isinstance(x, (ExcClass, ClassRef)) else (x.dotted.split(".")[-1] if isinstance(x, External) else None)
            if nm and exc_is(exc.cls, nm):
                return True
        return False

    def x_With(self, st, env, clo):
        for item in st.items:
            v = self.eval(item.context_expr, env)
            if item.optional_vars is not None:
                self.assign(item.optional_vars, v, env)
        self.exec_block(st.body, env, clo)

    def x_Delete(self, st, env, clo):
        for t in st.targets:
            if isinstance(t, ast.Name):
                env.vars.pop(t.id, None)

    def x_For(self, st, env, clo):
        items = self.iterate(self.eval(st.iter, env))
        broke = False
        for x in items:
            self.assign(st.target, x, env)
            try:
                self.exec_block(st.body, env, clo)
            except _Break:
                broke = True
                break
            except _Continue:
                continue
        if not broke:
            self.exec_block(st.orelse, env, clo)

    def x_While(self, st, env, clo):
        key = None
        if clo is not None:
            whiles = [n for n in ast.walk(clo.node) if isinstance(n, ast.While)]
            whiles.sort(key=lambda n: (n.lineno, n.col_offset))
            key = (clo.qualname, whiles.index(st)) if st in whiles else None
        spec = self.loop_specs.get(key)
        if spec is not None:
            return spec(self, st, env, clo)
        n = 0
        while True:
            if not self.truth(self.eval(st.test, env)):
                self.exec_block(st.orelse, env, clo)
                return
            n += 1
            if n > self.cfg["max_unroll"]:
                raise LoopBound(f"while loop at line {st.lineno} unrolled {n - 1} times")
            try:
                self.exec_block(st.body, env, clo)
            except _Break:
                return
            except _Continue:
                continue

    def x_Match(self, st, env, clo):
        subj = self.eval(st.subject, env)
        for case in st.cases:
            pat = case.pattern
            if isinstance(pat, ast.MatchValue):
                from .builtins_model import compare
                if self.truth(compare(self, ast.Eq(), subj, self.eval(pat.value, env))):
                    return self.exec_block(case.body, env, clo)
            elif isinstance(pat, ast.MatchAs) and pat.pattern is None:
                if pat.name:
                    env.vars[pat.name] = subj
                return self.exec_block(case.body, env, clo)
            else:
                raise Undecided(f"match pattern {type(pat).__name__}")

    # ---- expressions
    def eval(self, e, env):
        m = getattr(self, "e_" + type(e).__name__, None)
        if m is None:
            raise Undecided(f"expression {type(e).__name__} at line {getattr(e, 'lineno', '?')}")
        return m(e, env)

    def e_Constant(self, e, env):
        v = e.value
        if isinstance(v, float):
            if v != 0 and abs(v) <= 1e-50:
                self.dropped.add(f"regulariser literal {v!r} read as 0")
                return sp.Integer(0)
            return sym.to_sym(v)
        if isinstance(v, complex):
            if v.real == 0 and v.imag == 0:
                return 0
            raise Undecided("complex literal")
        return v

    def e_Name(self, e, env):
        try:
            return env.lookup(e.id)
        except KeyError:
            return self.resolve_global(env.module, e.id)

    def e_Attribute(self, e, env):
        v = self.eval(e.value, env)
        name = e.attr
        if name.startswith("__") and not name.endswith("__") and isinstance(v, SymObj):
            # private name mangling of class bodies: self.__x is self._Class__x; a method defined as __m is looked up by its source name
            cls = self._enclosing_class()
            if cls:
                mangled = f"_{cls.lstrip('_')}{name}"
                if mangled in v.attrs:
                    return v.attrs[mangled]
                if v.cls and v.module and source.find_method(v.module, v.cls, name) is not None:
                    return self.getattr(v, name, e)
                return self.getattr(v, mangled, e)
        return self.getattr(v, name, e)

    def _enclosing_class(self):
        for q in reversed(self.callstack):
            head = q.split(".")[0]
            if "." in q and head and head[0].isupper():
                return head
            break
        return None

    def e_Tuple(self, e, env):
        return tuple(self._elts(e.elts, env))

    def e_List(self, e, env):
        return list(self._elts(e.elts, env))

    def e_Set(self, e, env):
        return set(self._elts(e.elts, env))

    def _elts(self, elts, env):
        out = []
        for x in elts:
            if isinstance(x, ast.Starred):
                out.extend(self.iterate(self.eval(x.value, env)))
            else:
                out.append(self.eval(x, env))
        return out

    def e_Dict(self, e, env):
        d = {}
        for k, v in zip(e.keys, e.values):
            if k is None:
                d.update(self.eval(v, env))
            else:
                d[self.eval(k, env)] = self.eval(v, env)
        return d

    def e_JoinedStr(self, e, env):
        """f-strings: evaluated when every interpolated value is a plain string/integer/path (file names are built this way),
        otherwise the placeholder "<fstring>" (messages are dropped)."""
        import pathlib
        parts = []
        for v in e.values:
            if isinstance(v, ast.Constant):
                parts.append(str(v.value))
                continue
            if isinstance(v, ast.FormattedValue):
                try:
                    val = self.eval(v.value, env)
                except (PyExc, Undecided):
                    return "<fstring>"
                if isinstance(val, (str, int, pathlib.PurePath)) and not isinstance(val, bool) and v.format_spec is None and v.conversion == -1:
                    parts.append(str(val))
                    continue
            return "<fstring>"
        return "".join(parts)

    def e_Lambda(self, e, env):
        return Closure(e, env, env.module, f"<lambda@{e.lineno}>")

    def e_IfExp(self, e, env):
        if self.truth(self.eval(e.test, env)):
            return self.eval(e.body, env)
        return self.eval(e.orelse, env)

    def e_BoolOp(self, e, env):
        if isinstance(e.op, ast.And):
            v = True
            for x in e.values:
                v = self.eval(x, env)
                if not self.truth(v):
                    return v if not isinstance(v, sp.Basic) else False
            return v if not isinstance(v, sp.Basic) else True
        v = False
        for x in e.values:
            v = self.eval(x, env)
            if self.truth(v):
                return v if not isinstance(v, sp.Basic) else True
        return v if not isinstance(v, sp.Basic) else False

    def e_UnaryOp(self, e, env):
        from .builtins_model import unop
        return unop(self, e.op, self.eval(e.operand, env))

    def e_BinOp(self, e, env):
        from .builtins_model import binop
        return binop(self, e.op, self.eval(e.left, env), self.eval(e.right, env))

    def e_Compare(self, e, env):
        from .builtins_model import compare
        left = self.eval(e.left, env)
        result = True
        for op, rhs in zip(e.ops, e.comparators):
            right = self.eval(rhs, env)
            r = compare(self, op, left, right)
            if len(e.ops) == 1:
                return r
            if isinstance(r, np.ndarray):
                raise Undecided("chained comparison of arrays")
            if isinstance(r, sp.Basic) and not isinstance(r, (BooleanTrue, BooleanFalse)):
                result = sym.And(result, r) if result is not True else r
            elif not bool(r):
                return False
            left = right
        return result

    def e_Subscript(self, e, env):
        from .builtins_model import getitem
        return getitem(self, self.eval(e.value, env), self.eval_index(e.slice, env))

    def eval_index(self, s, env):
        if isinstance(s, ast.Slice):
            return slice(*[_toint(self.eval(x, env)) if x is not None else None for x in (s.lower, s.upper, s.step)])
        if isinstance(s, ast.Tuple):
            return tuple(self.eval_index(x, env) for x in s.elts)
        v = self.eval(s, env)
        return v

    def e_Slice(self, e, env):
        return self.eval_index(e, env)

    def e_Starred(self, e, env):
        raise Undecided("starred expression outside call/display")

    def e_ListComp(self, e, env):
        return self._comp(e.elt, e.generators, env)

    e_GeneratorExp = e_ListComp

    def _comp(self, elt, gens, env):
        out = []

        def rec(i, cenv):
            if i == len(gens):
                out.append(self.eval(elt, cenv))
                return
            g = gens[i]
            for x in self.iterate(self.eval(g.iter, cenv)):
                sub = Env(parent=cenv)
                self.assign(g.target, x, sub)
                if all(self.truth(self.eval(c, sub)) for c in g.ifs):
                    rec(i + 1, sub)
        rec(0, Env(parent=env))
        return out

    def e_DictComp(self, e, env):
        keys = self._comp(e.key, e.generators, env)
        vals = self._comp(e.value, e.generators, env)
        return dict(zip(keys, vals))

    def e_Call(self, e, env):
        if isinstance(e.func, ast.Name) and e.func.id == "locals" and not e.args:
            return dict(env.vars)
        if isinstance(e.func, ast.Name) and e.func.id == "super" and not e.args:
            cls = self._enclosing_class()
            try:
                selfobj = env.lookup("self")
            except KeyError:
                selfobj = None
            if cls and isinstance(selfobj, SymObj):
                return SuperProxy(selfobj, env.module, cls)
            raise Undecided("super() outside a method")
        f = self.eval(e.func, env)
        args = []
        for a in e.args:
            if isinstance(a, ast.Starred):
                args.extend(self.iterate(self.eval(a.value, env)))
            else:
                args.append(self.eval(a, env))
        kwargs = {}
        for k in e.keywords:
            if k.arg is None:
                kwargs.update(self.eval(k.value, env))
            else:
                kwargs[k.arg] = self.eval(k.value, env)
        return self.call(f, args, kwargs, e)


def _as_load(t):
    import copy
    t2 = copy.copy(t)
    t2.ctx = ast.Load()
    return t2


def _toint(v):
    if v is None or isinstance(v, int):
        return v
    if isinstance(v, sp.Integer):
        return int(v)
    if isinstance(v, sp.Basic) and v.is_number and v == int(v):
        return int(v)
    if isinstance(v, (np.integer,)):
        return int(v)
    raise Undecided(f"symbolic slice bound {v}")


# --------------------------------------------------------------------------- path enumeration
@dataclass
class Path:
    outcome: str               # "return" | "raise" | "cut"
    value: object
    pc: list
    events: list
    obligs: list
    script: list
    state: dict                # label -> object handed in by the caller's factory
    inlined: set
    dropped: set
    exc: PyExc | None = None
    assumed: list = field(default_factory=list)


class BlockSpec:
    """Contract of a statement range of a function body (DESIGN 2.1, block contracts).  The range runs
    from the first top-level statement satisfying ``start`` up to (not including) the next one satisfying
    ``end``.  ``assigns`` is the frame: the only local names the block may assign; it may not store to
    attributes or subscripts of anything else and may not return.  ``apply(it, env)`` havocs the frame."""

    def __init__(self, name, start, end, assigns, apply, may_call=None):
        self.name, self.start, self.end, self.assigns, self.apply = name, start, end, set(assigns), apply
        self.may_call = may_call

    def check_frame(self, stmts):
        for st in stmts:
            for n in ast.walk(st):
                if isinstance(n, (ast.Return, ast.Yield, ast.Global, ast.Nonlocal)):
                    raise Undecided(f"block contract {self.name}: block contains {type(n).__name__}")
                if isinstance(n, ast.Name) and isinstance(n.ctx, ast.Store) and n.id not in self.assigns:
                    raise Undecided(f"block contract {self.name}: block assigns {n.id}, outside its frame {sorted(self.assigns)}")
                if isinstance(n, ast.Attribute) and isinstance(n.ctx, ast.Store):
                    raise Undecided(f"block contract {self.name}: block stores to attribute {ast.unparse(n)}")
                if isinstance(n, ast.Subscript) and isinstance(n.ctx, ast.Store):
                    root = n.value
                    while isinstance(root, (ast.Subscript, ast.Attribute)):
                        root = root.value
                    if not (isinstance(root, ast.Name) and root.id in self.assigns):
                        raise Undecided(f"block contract {self.name}: block stores into {ast.unparse(n)}")
                if self.may_call is not None and isinstance(n, ast.Call):
                    nm = ast.unparse(n.func)
                    if nm not in self.may_call:
                        raise Undecided(f"block contract {self.name}: block calls {nm}, not in the declared callee list")


def enumerate_paths(run, registry=None, externals=None, loop_specs=None, config=None, max_paths=4000, block_specs=None):
    """``run(interp)`` builds the pre-state, calls the function and returns (value, state).
    It is re-executed once per path."""
    import os
    import time as _time
    debug = os.environ.get("WGVC_DEBUG")
    paths = []
    script: list = []
    n = 0
    t0 = _time.time()
    while True:
        if debug and n % 20 == 0 and n:
            print(f"  [paths] {n} explored, {len(paths)} kept, {_time.time() - t0:.1f}s", flush=True)
        it = Interp(script=script, registry=registry, externals=externals, loop_specs=loop_specs, config=config,
                    block_specs=block_specs)
        try:
            value, state = run(it)
            paths.append(Path("return", value, list(it.pc), it.events, it.obligs, list(it.script), state, it.inlined, it.dropped, assumed=it.assumed))
        except PyExc as exc:
            paths.append(Path("raise", None, list(it.pc), it.events, it.obligs, list(it.script), getattr(it, "state", {}), it.inlined, it.dropped, exc=exc, assumed=it.assumed))
        except Infeasible:
            pass
        except PathEnd:
            paths.append(Path("end", None, list(it.pc), it.events, it.obligs, list(it.script), {}, it.inlined, it.dropped))
        except LoopBound as exc:
            paths.append(Path("cut", str(exc), list(it.pc), it.events, it.obligs, list(it.script), {}, it.inlined, it.dropped))
        n += 1
        if n > max_paths:
            raise Undecided(f"more than {max_paths} paths")
        s = list(it.script[:it.ptr]) if it.ptr <= len(it.script) else list(it.script)
        while s and s[-1] is False:
            s.pop()
        if not s:
            break
        s[-1] = False
        script = s
    return paths
