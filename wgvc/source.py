"""Locate functions of the real repository by qualified name.

The repository is parsed with ``ast`` from the working tree on every run; nothing is
imported from it and nothing is cached between runs.
"""
from __future__ import annotations

import ast
import hashlib
import os
from dataclasses import dataclass, field

REPO = os.environ.get("WGVC_REPO", "/repo")
SRC = os.path.join(REPO, "src", "WallGo")


class SourceError(Exception):
    """A function, class or anchor named by a contract does not exist in the tree."""


@dataclass
class FuncInfo:
    module: str
    qualname: str           # e.g. "Hydrodynamics.matchDeton" or "gammaSq"
    node: ast.AST           # FunctionDef / Lambda
    cls: str | None
    source: str
    sha1: str
    lineno: int


@dataclass
class ModuleInfo:
    name: str
    path: str
    tree: ast.Module
    text: str
    imports: dict = field(default_factory=dict)   # local name -> dotted path
    functions: dict = field(default_factory=dict)  # qualname -> FuncInfo
    classes: dict = field(default_factory=dict)    # class name -> ClassDef
    bases: dict = field(default_factory=dict)      # class name -> [base names]
    constants: dict = field(default_factory=dict)  # module-level Name -> ast value node


_MODULES: dict[str, ModuleInfo] = {}


def module_path(name: str) -> str:
    return os.path.join(SRC, *name.split(".")) + ".py"


def load_module(name: str) -> ModuleInfo:
    if name in _MODULES:
        return _MODULES[name]
    path = module_path(name)
    if not os.path.exists(path):
        raise SourceError(f"module {name} not found at {path}")
    text = open(path, encoding="utf-8").read()
    try:
        tree = ast.parse(text, filename=path)
    except SyntaxError as exc:  # the tree does not compile: not our verdict to give
        raise SourceError(f"{path} does not parse: {exc}") from exc
    mi = ModuleInfo(name=name, path=path, tree=tree, text=text)
    for node in tree.body:
        _index_stmt(mi, node)
    _MODULES[name] = mi
    return mi


def _index_stmt(mi: ModuleInfo, node: ast.stmt) -> None:
    if isinstance(node, ast.Import):
        for a in node.names:
            mi.imports[a.asname or a.name.split(".")[0]] = a.name if a.asname else a.name.split(".")[0]
    elif isinstance(node, ast.ImportFrom):
        mod = node.module or ""
        if node.level:
            mod = "WallGo." + mod if mod else "WallGo"
        for a in node.names:
            mi.imports[a.asname or a.name] = f"{mod}.{a.name}"
    elif isinstance(node, (ast.FunctionDef, ast.AsyncFunctionDef)):
        _index_func(mi, node, None, node.name)
    elif isinstance(node, ast.ClassDef):
        mi.classes[node.name] = node
        mi.bases[node.name] = [ast.unparse(b) for b in node.bases]
        for sub in node.body:
            if isinstance(sub, (ast.FunctionDef, ast.AsyncFunctionDef)):
                _index_func(mi, sub, node.name, f"{node.name}.{sub.name}")
    elif isinstance(node, ast.Assign) and len(node.targets) == 1 and isinstance(node.targets[0], ast.Name):
        mi.constants[node.targets[0].id] = node.value
    elif isinstance(node, ast.AnnAssign) and isinstance(node.target, ast.Name) and node.value is not None:
        mi.constants[node.target.id] = node.value
    elif isinstance(node, (ast.If, ast.Try)):
        for sub in node.body:
            _index_stmt(mi, sub)


def _index_func(mi: ModuleInfo, node, cls, qualname) -> None:
    seg = ast.get_source_segment(mi.text, node) or ""
    mi.functions[qualname] = FuncInfo(
        module=mi.name, qualname=qualname, node=node, cls=cls, source=seg,
        sha1=hashlib.sha1(seg.encode()).hexdigest(), lineno=node.lineno,
    )
    # nested functions: "<outer>.<inner>"
    for sub in ast.walk(node):
        if sub is node:
            continue
        if isinstance(sub, ast.FunctionDef):
            q = f"{qualname}.<{sub.name}>"
            if q not in mi.functions:
                s = ast.get_source_segment(mi.text, sub) or ""
                mi.functions[q] = FuncInfo(mi.name, q, sub, cls, s,
                                           hashlib.sha1(s.encode()).hexdigest(), sub.lineno)


def get_function(module: str, qualname: str) -> FuncInfo:
    mi = load_module(module)
    if qualname not in mi.functions:
        raise SourceError(f"function {module}.{qualname} not found in {mi.path}")
    return mi.functions[qualname]


def find_method(module: str, cls: str, name: str) -> FuncInfo | None:
    """Method resolution along the (single-inheritance) base chain inside the package."""
    seen = set()
    mod, c = module, cls
    while c and (mod, c) not in seen:
        seen.add((mod, c))
        mi = load_module(mod)
        q = f"{c}.{name}"
        if q in mi.functions:
            return mi.functions[q]
        nxt = None
        for b in mi.bases.get(c, []):
            b = b.split(".")[-1]
            if b in mi.classes:
                nxt = (mod, b)
                break
            dotted = mi.imports.get(b)
            if dotted and dotted.startswith("WallGo."):
                parts = dotted.split(".")
                nxt = (".".join(parts[1:-1]), parts[-1])
                break
        if nxt is None:
            return None
        mod, c = nxt
    return None


def class_module(cls: str) -> str | None:
    """Find the module of the package that defines class ``cls``."""
    for fn in sorted(os.listdir(SRC)):
        if fn.endswith(".py"):
            mi = load_module(fn[:-3])
            if cls in mi.classes:
                return mi.name
    return None


def reset_cache() -> None:
    _MODULES.clear()
