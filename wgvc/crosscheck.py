"""CPython cross-check of the symbolic interpreter (translation validation of wgvc itself, DESIGN 2.5.4):
the path summaries of a function are evaluated at random concrete inputs and compared with the REAL function
executed under /venv/bin/python (wgvc/native_runner.py) with collaborators stubbed by the same random functions."""
from __future__ import annotations

import json
import math
import os
import random
import subprocess
import tempfile

import numpy as np
import sympy as sp

from . import sym
from .api import VERIF

NATIVE_PY = os.environ.get("WGVC_NATIVE_PY", "/venv/bin/python")


def poly_chain(rnd, names, nvars=1, deg=3, lo=0.5, hi=2.0):
    """random polynomial for names[0] and its successive derivatives in the first variable for names[1:]"""
    xs = sp.symbols(f"_x0:{nvars}")
    expo = [e for e in np.ndindex(*([deg + 1] * nvars)) if sum(e) <= deg]
    poly = sum(sp.Rational(rnd.randint(-20, 20), 10) * sp.Mul(*[x**k for x, k in zip(xs, e)]) for e in expo)
    out = {}
    cur = poly
    for nm in names:
        out[nm] = cur
        cur = sp.diff(cur, xs[0])
    return xs, out


def to_native_poly(xs, expr):
    p = sp.Poly(sp.expand(expr), *xs)
    return {"kind": "poly", "vars": len(xs), "terms": [[list(m), float(c)] for m, c in p.terms()]}


def to_callable(xs, expr):
    f = sp.lambdify(xs, expr, "math")
    return lambda *a: float(f(*[float(t) for t in a]))


class Cross:
    def __init__(self, name, paths, sample, scenario, result=lambda p: p.value, functions=None, compare=None, rtol=1e-8):
        self.name, self.paths, self.sample, self.scenario = name, paths, sample, scenario
        self.result, self.functions, self.compare, self.rtol = result, functions or (lambda rnd: ({}, {})), compare, rtol


def flatten(v):
    if isinstance(v, dict):
        return [x for k in sorted(v) for x in flatten(v[k])]
    if isinstance(v, (list, tuple, np.ndarray)):
        out = []
        for x in v:
            out.extend(flatten(x))
        return out
    return [v]


def run_crosses(chk, crosses, points):
    rnd = random.Random(chk.seed * 7919 + 13)
    scenarios, expected = [], {}
    for c in crosses:
        done = 0
        tries = 0
        while done < points and tries < points * 30:
            tries += 1
            native_fns, sym_fns = c.functions(rnd)
            env = c.sample(rnd)
            chosen = None
            for p in c.paths:
                if p.outcome != "return":
                    continue
                try:
                    ok = True
                    for cond in p.pc:
                        try:
                            if not sym.bool_eval(cond, env, sym_fns):
                                ok = False
                                break
                        except KeyError:
                            # a fact about collaborators that are not part of this scenario (e.g. w = e + p of the EOS): not a branch decision
                            if isinstance(cond, sp.Eq):
                                continue
                            raise
                    if ok:
                        chosen = p
                        break
                except (KeyError, ValueError, ZeroDivisionError, OverflowError, TypeError):
                    chosen = None
                    break
            if chosen is None:
                continue
            try:
                want = [float(sym.num_eval(x, env, sym_fns)) if isinstance(x, (sp.Basic, int, float)) else None for x in flatten(c.result(chosen))]
            except (KeyError, ValueError, ZeroDivisionError, OverflowError, TypeError):
                continue
            if any(w is None or math.isnan(w) or math.isinf(w) for w in want):
                continue
            sid = f"{c.name}#{done}"
            sc = c.scenario(env)
            sc["id"] = sid
            sc["functions"] = native_fns
            scenarios.append(sc)
            expected[sid] = (c, want, env)
            done += 1
        if done == 0:
            chk.notes.append(f"cross-check {c.name}: no sample satisfied a path condition")
    if not scenarios:
        return
    with tempfile.NamedTemporaryFile("w", suffix=".json", delete=False) as fh:
        json.dump(scenarios, fh)
        path = fh.name
    try:
        out = subprocess.run([NATIVE_PY, os.path.join(VERIF, "wgvc", "native_runner.py"), path], capture_output=True, text=True, timeout=900,
                             env={**os.environ, "PYTHONPATH": os.path.join(os.environ.get("WGVC_REPO", "/repo"), "src")})
    finally:
        os.unlink(path)
    if out.returncode != 0:
        chk.notes.append(f"cross-check: native runner failed ({out.stderr[-300:]})")
        return
    try:
        results = json.loads(out.stdout[out.stdout.index("["):])
    except (ValueError, json.JSONDecodeError):
        chk.notes.append("cross-check: native runner output not understood")
        return
    seen = set()
    for r in results:
        c, want, env = expected[r["id"]]
        chk.crosscheck["points"] += 1
        seen.add(c.name)
        if not r["ok"]:
            chk.crosscheck["disagreements"] += 1
            chk.crosscheck.setdefault("details", []).append({"id": r["id"], "native_error": r.get("error"), "env": env})
            continue
        got = [float(x) for x in flatten(r["result"] if not c.compare else c.compare(r)) if isinstance(x, (int, float))]
        ok = len(got) == len(want) and all(abs(a - b) <= c.rtol * max(1.0, abs(a), abs(b)) for a, b in zip(got, want))
        if not ok:
            chk.crosscheck["disagreements"] += 1
            chk.crosscheck.setdefault("details", []).append({"id": r["id"], "symbolic": want, "native": got, "env": env})
    chk.crosscheck["functions"] = len(seen)
    if "details" in chk.crosscheck:
        chk.crosscheck["details"] = chk.crosscheck["details"][:5]
