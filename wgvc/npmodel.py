"""numpy on the interpreter's values.

Arrays are real numpy arrays of dtype object whose elements are terms, so the *structural*
semantics (broadcasting, slicing, reshape, transpose, expand_dims, concatenate, sum over an
axis ...) is numpy's own, not a re-implementation.  Only elementwise mathematics is mapped
to the term language here.
"""
from __future__ import annotations

import ast

import numpy as np
import sympy as sp

from . import sym
from .interp import Undecided, PyExc, SymObj, Opaque, _toint
from .builtins_model import (elementwise, as_array, norm, binop, compare, _cmp_scalar, is_sym,
                             call_builtin, is_bool_sym)

CONSTANTS = {
    "sys.float_info.max_exp": 1024,
    "numpy.pi": sp.pi, "numpy.inf": sp.oo, "numpy.nan": sp.nan, "numpy.newaxis": None,
    "math.pi": sp.pi, "math.inf": sp.oo, "numpy.e": sp.E,
}

HANDLERS: dict = {}
METHODS: dict = {}


def handler(*names):
    def deco(f):
        for n in names:
            HANDLERS[n] = f
        return f
    return deco


def method(*names):
    def deco(f):
        for n in names:
            METHODS[n] = f
        return f
    return deco


def _ew1(fn):
    def h(it, args, kwargs):
        return elementwise(lambda x: fn(it, x), args[0])
    return h


def _sqrt(it, x):
    x = sym.to_sym(x)
    if x.is_number and x.is_real and x < 0:
        return sp.nan
    return norm(sp.sqrt(x))


HANDLERS["numpy.sqrt"] = _ew1(_sqrt)
HANDLERS["math.sqrt"] = _ew1(_sqrt)
for _n, _f in (("exp", sp.exp), ("log", sp.log), ("tanh", sp.tanh), ("cosh", sp.cosh), ("sinh", sp.sinh),
               ("arctanh", sp.atanh), ("tan", sp.tan), ("arctan", sp.atan), ("cos", sp.cos), ("sin", sp.sin)):
    HANDLERS[f"numpy.{_n}"] = _ew1(lambda it, x, _f=_f: norm(_f(sym.to_sym(x))))
    HANDLERS[f"math.{_n}"] = HANDLERS[f"numpy.{_n}"]


@handler("numpy.abs", "numpy.absolute", "numpy.fabs")
def _abs(it, args, kwargs):
    return elementwise(lambda x: call_builtin(it, "abs", [x], {}), args[0])


@handler("numpy.sign")
def _sign(it, args, kwargs):
    def f(x):
        x = sym.to_sym(x)
        if x.is_number:
            return norm(sp.sign(x))
        return sp.Piecewise((1, sym.Gt(x, 0)), (-1, sym.Lt(x, 0)), (0, True))
    return elementwise(f, args[0])


@handler("numpy.real")
def _real(it, args, kwargs):
    return args[0]


@handler("numpy.isnan")
def _isnan(it, args, kwargs):
    return elementwise(lambda x: sym.to_sym(x) is sp.nan, args[0])


@handler("numpy.isfinite")
def _isfinite(it, args, kwargs):
    return elementwise(lambda x: sym.to_sym(x) not in (sp.nan, sp.oo, -sp.oo, sp.zoo), args[0])


@handler("numpy.isscalar")
def _isscalar(it, args, kwargs):
    return not isinstance(args[0], (np.ndarray, list, tuple, SymObj))


def _ite(c, a, b):
    c = norm(c)
    if isinstance(c, bool):
        return norm(a) if c else norm(b)
    if c is sp.true:
        return norm(a)
    if c is sp.false:
        return norm(b)
    a, b = sym.to_sym(a), sym.to_sym(b)
    if a == b:
        return norm(a)
    return sp.Piecewise((a, c), (b, True))


@handler("numpy.where")
def _where(it, args, kwargs):
    if len(args) != 3:
        raise Undecided("np.where with one argument")
    return elementwise(_ite, args[0], args[1], args[2])


@handler("numpy.maximum")
def _maximum(it, args, kwargs):
    return elementwise(lambda a, b: _ite(_cmp_scalar(it, ast.GtE(), a, b), a, b), args[0], args[1])


@handler("numpy.minimum")
def _minimum(it, args, kwargs):
    return elementwise(lambda a, b: _ite(_cmp_scalar(it, ast.LtE(), a, b), a, b), args[0], args[1])


@handler("numpy.array", "numpy.asarray", "numpy.asanyarray", "numpy.atleast_1d")
def _array(it, args, kwargs):
    v = args[0]
    if isinstance(v, SymObj):
        return v
    if isinstance(v, np.ndarray):
        return v.copy() if it is not None and kwargs.get("copy", True) and False else v
    if isinstance(v, (list, tuple)):
        return as_array(v)
    return norm(v)     # 0-d arrays behave as scalars in the interpreted fragment


@handler("numpy.copy", "copy.copy")
def _copy(it, args, kwargs):
    v = args[0]
    if isinstance(v, np.ndarray):
        return v.copy()
    if isinstance(v, list):
        return list(v)
    if isinstance(v, dict):
        return dict(v)
    return v


def _deepcopy_val(v, memo):
    if id(v) in memo:
        return memo[id(v)]
    if isinstance(v, np.ndarray):
        out = np.empty(v.shape, dtype=object)
        memo[id(v)] = out
        flat_in = v.reshape(-1)
        flat_out = out.reshape(-1)
        for i in range(flat_in.size):
            flat_out[i] = _deepcopy_val(flat_in[i], memo)
        return out
    if isinstance(v, list):
        out = []
        memo[id(v)] = out
        out.extend(_deepcopy_val(x, memo) for x in v)
        return out
    if isinstance(v, tuple):
        return tuple(_deepcopy_val(x, memo) for x in v)
    if isinstance(v, dict):
        out = {}
        memo[id(v)] = out
        for k, x in v.items():
            out[k] = _deepcopy_val(x, memo)
        return out
    if isinstance(v, SymObj):
        out = SymObj(v.cls, v.module, label=v.label + "'", open_=v.open)
        memo[id(v)] = out
        out.attrs = {k: _deepcopy_val(x, memo) for k, x in v.attrs.items()}
        return out
    return v


@handler("copy.deepcopy")
def _deepcopy(it, args, kwargs):
    return _deepcopy_val(args[0], {})


def _shape_arg(v):
    if isinstance(v, (list, tuple)):
        return tuple(_toint(x) for x in v)
    return (_toint(v),)


@handler("numpy.empty")
def _empty(it, args, kwargs):
    out = np.empty(_shape_arg(args[0]), dtype=object)
    out[...] = sym.real("uninitialised!")       # reading an entry that was never written shows up in the result
    return out


@handler("numpy.zeros")
def _zeros(it, args, kwargs):
    out = np.empty(_shape_arg(args[0]), dtype=object)
    out[...] = 0
    return out


@handler("numpy.ones")
def _ones(it, args, kwargs):
    out = np.empty(_shape_arg(args[0]), dtype=object)
    out[...] = 1
    return out


@handler("numpy.full")
def _full(it, args, kwargs):
    out = np.empty(_shape_arg(args[0]), dtype=object)
    out[...] = norm(args[1])
    return out


@handler("numpy.zeros_like", "numpy.empty_like")
def _zeros_like(it, args, kwargs):
    v = args[0]
    if isinstance(v, np.ndarray):
        shape = _shape_arg(kwargs["shape"]) if kwargs.get("shape") is not None else v.shape
        out = np.empty(shape, dtype=object)
        out[...] = 0
        # the new array inherits the dtype of the prototype: the only dtype distinction modelled is "integer array" (registered by
        # the contract that builds the pre-state, see interp.Interp.int_arrays): values stored into one are truncated toward zero
        if kwargs.get("dtype") is None and id(v) in getattr(it, "int_arrays", {}):
            it.int_arrays[id(out)] = out
        return out
    return 0


@handler("numpy.ones_like")
def _ones_like(it, args, kwargs):
    v = args[0]
    if isinstance(v, np.ndarray):
        out = np.empty(v.shape, dtype=object)
        out[...] = 1
        return out
    return 1


@handler("numpy.identity", "numpy.eye")
def _identity(it, args, kwargs):
    n = _toint(args[0])
    out = np.empty((n, n), dtype=object)
    out[...] = 0
    for i in range(n):
        out[i, i] = 1
    return out


@handler("numpy.arange")
def _arange(it, args, kwargs):
    vals = [norm(a) for a in args]
    if all(isinstance(v, int) for v in vals):
        return as_array(list(range(*vals)))
    # symbolic bounds: the length ceil((stop - start)/step) must be determined by the path condition (exact real arithmetic; the
    # off-by-one that floating point can produce in np.arange is part of "rounding is not modelled")
    from .smt import quick_sat
    if len(vals) == 1:
        start, stop, step = 0, vals[0], 1
    elif len(vals) == 2:
        start, stop, step = vals[0], vals[1], 1
    else:
        start, stop, step = vals[:3]
    start, stop, step = (sym.to_sym(v) for v in (start, stop, step))
    span = stop - start
    for n in range(0, 9):
        cond = sym.And(sym.Gt(step, 0), sym.Le(span, n * step), sym.Gt(span, (n - 1) * step)) if n > 0 else sym.And(sym.Gt(step, 0), sym.Le(span, 0))
        if quick_sat(list(it.pc) + [sym.Not(cond)], 3000) == "unsat":
            return as_array([start + k * step for k in range(n)])
    raise Undecided("np.arange with symbolic bounds whose length the path condition does not determine (or longer than 8)")


@handler("numpy.linspace")
def _linspace(it, args, kwargs):
    a, b = norm(args[0]), norm(args[1])
    n = _toint(args[2] if len(args) > 2 else kwargs.get("num", 50))
    endpoint = kwargs.get("endpoint", True)
    div = (n - 1) if endpoint else n
    return as_array([binop(it, ast.Add(), a, binop(it, ast.Div(), binop(it, ast.Mult(), binop(it, ast.Sub(), b, a), i), div)) for i in range(n)])


def _axis(kwargs, args, pos=1):
    ax = kwargs.get("axis", args[pos] if len(args) > pos else None)
    if ax is None:
        return None
    if isinstance(ax, (tuple, list)):
        return tuple(_toint(a) for a in ax)
    return _toint(ax)


def _reduce(it, v, axis, op, init=None):
    a = as_array(v)
    if a.size == 0 and init is None:
        raise PyExc("ValueError", ("zero-size array to reduction operation which has no identity",))
    f = np.frompyfunc(lambda x, y: op(norm(x), norm(y)), 2, 1)
    if axis is None:
        flat = list(a.reshape(-1))
        acc = init if init is not None else norm(flat.pop(0))
        for x in flat:
            acc = op(acc, norm(x))
        return acc
    if isinstance(axis, tuple):
        r = a
        for ax in sorted([x % a.ndim for x in axis], reverse=True):
            r = _reduce(it, r, ax, op, init)
        return r
    if a.shape[axis] == 0:
        out = np.empty(tuple(s for i, s in enumerate(a.shape) if i != axis % a.ndim), dtype=object)
        out[...] = init
        return out
    r = f.reduce(a, axis=axis)
    return r if isinstance(r, np.ndarray) else norm(r)


@handler("numpy.sum")
def _sum(it, args, kwargs):
    return _reduce(it, args[0], _axis(kwargs, args), lambda x, y: binop(it, ast.Add(), x, y), 0)


@handler("numpy.prod")
def _prod(it, args, kwargs):
    return _reduce(it, args[0], _axis(kwargs, args), lambda x, y: binop(it, ast.Mult(), x, y), 1)


def _pick(it, cmpop):
    def op(x, y):
        return _ite(_cmp_scalar(it, cmpop, x, y), x, y)
    return op


@handler("numpy.max", "numpy.amax")
def _max(it, args, kwargs):
    return _reduce(it, args[0], _axis(kwargs, args), _pick(it, ast.GtE()))


@handler("numpy.min", "numpy.amin")
def _min(it, args, kwargs):
    return _reduce(it, args[0], _axis(kwargs, args), _pick(it, ast.LtE()))


@handler("numpy.mean")
def _mean(it, args, kwargs):
    a = as_array(args[0])
    ax = _axis(kwargs, args)
    s = _sum(it, [a], {"axis": ax} if ax is not None else {})
    n = a.size if ax is None else a.shape[ax]
    return binop(it, ast.Div(), s, n)


def _bool_reduce(it, v, axis, isall):
    def op(x, y):
        if isinstance(x, bool) and isinstance(y, bool):
            return (x and y) if isall else (x or y)
        return (sym.And if isall else sym.Or)(x, y)
    r = _reduce(it, v, axis, op, True if isall else False)
    if isinstance(r, (sp.logic.boolalg.BooleanTrue, sp.logic.boolalg.BooleanFalse)):
        return bool(r)
    return r


@handler("numpy.all")
def _all(it, args, kwargs):
    return _bool_reduce(it, args[0], _axis(kwargs, args), True)


@handler("numpy.any")
def _any(it, args, kwargs):
    return _bool_reduce(it, args[0], _axis(kwargs, args), False)


@handler("numpy.expand_dims")
def _expand_dims(it, args, kwargs):
    ax = _axis(kwargs, args)
    return np.expand_dims(as_array(args[0]), ax)


@handler("numpy.concatenate")
def _concatenate(it, args, kwargs):
    ax = _axis(kwargs, args)
    parts = [as_array(x) for x in it.iterate(args[0])]
    try:
        return np.concatenate(parts, axis=0 if ax is None else ax)
    except ValueError as exc:
        raise PyExc("ValueError", (str(exc),))


@handler("numpy.reshape")
def _reshape(it, args, kwargs):
    return _m_reshape(it, as_array(args[0]), args[1:], kwargs)


@handler("numpy.transpose")
def _transpose(it, args, kwargs):
    return _m_transpose(it, as_array(args[0]), args[1:], kwargs)


@handler("numpy.column_stack")
def _column_stack(it, args, kwargs):
    cols = []
    for a in it.iterate(args[0]):
        a = as_array(a)
        cols.append(a.reshape(-1, 1) if a.ndim <= 1 else a)
    return np.concatenate(cols, axis=1)


@handler("numpy.swapaxes")
def _swapaxes(it, args, kwargs):
    return np.swapaxes(as_array(args[0]), _toint(args[1]), _toint(args[2]))


@handler("numpy.tensordot")
def _tensordot(it, args, kwargs):
    """sum of products over the paired axes, with symbolic entries (numpy's own axis bookkeeping via moveaxis/reshape, the arithmetic by
    the scalar model)"""
    a, b = as_array(args[0]), as_array(args[1])
    axes = kwargs.get("axes", args[2] if len(args) > 2 else 2)
    if isinstance(axes, int):
        ax_a, ax_b = list(range(a.ndim - axes, a.ndim)), list(range(axes))
    else:
        ax_a, ax_b = axes
        ax_a = [_toint(x) for x in (ax_a if isinstance(ax_a, (list, tuple)) else [ax_a])]
        ax_b = [_toint(x) for x in (ax_b if isinstance(ax_b, (list, tuple)) else [ax_b])]
    ax_a = [x % a.ndim for x in ax_a]
    ax_b = [x % b.ndim for x in ax_b]
    free_a = [i for i in range(a.ndim) if i not in ax_a]
    free_b = [i for i in range(b.ndim) if i not in ax_b]
    at = np.transpose(a, free_a + ax_a)
    bt = np.transpose(b, ax_b + free_b)
    sa = [a.shape[i] for i in free_a]
    sb = [b.shape[i] for i in free_b]
    k = int(np.prod([a.shape[i] for i in ax_a])) if ax_a else 1
    if [a.shape[i] for i in ax_a] != [b.shape[i] for i in ax_b]:
        raise PyExc("ValueError", ("shape-mismatch for sum",))
    A2 = at.reshape(int(np.prod(sa)) if sa else 1, k)
    B2 = bt.reshape(k, int(np.prod(sb)) if sb else 1)
    out = np.empty((A2.shape[0], B2.shape[1]), dtype=object)
    for i in range(A2.shape[0]):
        for j in range(B2.shape[1]):
            acc = 0
            for t in range(k):
                acc = binop(it, ast.Add(), acc, binop(it, ast.Mult(), A2[i, t], B2[t, j]))
            out[i, j] = acc
    return out.reshape(sa + sb)


@handler("numpy.moveaxis")
def _moveaxis(it, args, kwargs):
    return np.moveaxis(as_array(args[0]), _conv_ax(args[1]), _conv_ax(args[2]))


def _conv_ax(v):
    if isinstance(v, (list, tuple)):
        return tuple(_toint(x) for x in v)
    return _toint(v)


@handler("numpy.ravel")
def _ravel(it, args, kwargs):
    return as_array(args[0]).reshape(-1)


@handler("numpy.meshgrid")
def _meshgrid(it, args, kwargs):
    arrs = [as_array(a) for a in args]
    idx = kwargs.get("indexing", "xy")
    shapes = [a.shape[0] for a in arrs]
    grids = np.meshgrid(*[np.arange(n) for n in shapes], indexing=idx)
    return [a[g] for a, g in zip(arrs, grids)]


@handler("numpy.ndim")
def _ndim(it, args, kwargs):
    v = args[0]
    return as_array(v).ndim if isinstance(v, (np.ndarray, list, tuple)) else 0


@handler("numpy.shape")
def _shape(it, args, kwargs):
    v = args[0]
    return tuple(as_array(v).shape) if isinstance(v, (np.ndarray, list, tuple)) else ()


@handler("numpy.size")
def _size(it, args, kwargs):
    v = args[0]
    return as_array(v).size if isinstance(v, (np.ndarray, list, tuple)) else 1


@handler("numpy.dot", "numpy.matmul")
def _dot(it, args, kwargs):
    return binop(it, ast.MatMult(), args[0], args[1])


@handler("numpy.outer")
def _outer(it, args, kwargs):
    a, b = as_array(args[0]).reshape(-1), as_array(args[1]).reshape(-1)
    return binop(it, ast.Mult(), a[:, None], b[None, :])


@handler("numpy.divide")
def _divide(it, args, kwargs):
    if "where" in kwargs:
        raise Undecided("np.divide(where=)")
    return binop(it, ast.Div(), args[0], args[1])


@handler("numpy.multiply")
def _multiply(it, args, kwargs):
    return binop(it, ast.Mult(), args[0], args[1])


@handler("numpy.power")
def _power(it, args, kwargs):
    return binop(it, ast.Pow(), args[0], args[1])


@handler("numpy.diag")
def _diag(it, args, kwargs):
    a = as_array(args[0])
    if a.ndim == 1:
        n = a.shape[0]
        out = np.empty((n, n), dtype=object)
        out[...] = 0
        for i in range(n):
            out[i, i] = a[i]
        return out
    return as_array([a[i, i] for i in range(min(a.shape))])


@handler("numpy.einsum")
def _einsum(it, args, kwargs):
    spec = args[0]
    if not isinstance(spec, str):
        raise Undecided("einsum spec")
    ops = [as_array(a) for a in args[1:]]
    ins, out = spec.replace(" ", "").split("->")
    ins = ins.split(",")
    dims = {}
    for s, a in zip(ins, ops):
        if len(s) != a.ndim:
            raise Undecided("einsum with ellipsis")
        for ch, n in zip(s, a.shape):
            dims[ch] = n
    summed = [ch for ch in dims if ch not in out]
    res = np.empty(tuple(dims[ch] for ch in out), dtype=object)
    import itertools
    for oidx in itertools.product(*[range(dims[ch]) for ch in out]):
        env = dict(zip(out, oidx))
        acc = 0
        for sidx in itertools.product(*[range(dims[ch]) for ch in summed]):
            env.update(zip(summed, sidx))
            term = 1
            for s, a in zip(ins, ops):
                term = binop(it, ast.Mult(), term, a[tuple(env[ch] for ch in s)])
            acc = binop(it, ast.Add(), acc, term)
        res[oidx] = acc
    return res if res.ndim else norm(res[()])


@handler("numpy.allclose", "numpy.isclose")
def _allclose(it, args, kwargs):
    return it.fresh_bool("allclose")


@handler("numpy.linalg.norm")
def _norm(it, args, kwargs):
    a = as_array(args[0]).reshape(-1)
    s = 0
    for x in a:
        s = binop(it, ast.Add(), s, binop(it, ast.Mult(), x, x))
    return _sqrt(it, s)


# --------------------------------------------------------------------------- array methods
@method("reshape")
def _m_reshape(it, a, args, kwargs):
    if isinstance(a, sp.Basic):
        a = as_array(a)
    shape = args[0] if len(args) == 1 and isinstance(args[0], (tuple, list)) else args
    order = kwargs.get("order", "C")
    try:
        return a.reshape(tuple(_toint(x) for x in shape), order=order)
    except ValueError as exc:
        raise PyExc("ValueError", (str(exc),))


@method("transpose")
def _m_transpose(it, a, args, kwargs):
    if not args or args[0] is None:
        return a.T
    axes = args[0] if len(args) == 1 and isinstance(args[0], (tuple, list)) else args
    return a.transpose(tuple(_toint(x) for x in axes))


@method("flatten", "ravel")
def _m_flatten(it, a, args, kwargs):
    return as_array(a).reshape(-1).copy()


@method("copy")
def _m_copy(it, a, args, kwargs):
    return a.copy() if isinstance(a, np.ndarray) else a


@method("item")
def _m_item(it, a, args, kwargs):
    if isinstance(a, np.ndarray):
        if a.size != 1:
            raise PyExc("ValueError", ("can only convert an array of size 1 to a Python scalar",))
        return norm(a.reshape(-1)[0])
    return a


@method("tolist")
def _m_tolist(it, a, args, kwargs):
    return a.tolist() if isinstance(a, np.ndarray) else a


@method("view", "astype", "squeeze_none", "toarray")
def _m_view(it, a, args, kwargs):
    return a


@method("squeeze")
def _m_squeeze(it, a, args, kwargs):
    return np.squeeze(a) if isinstance(a, np.ndarray) else a


@method("sum")
def _m_sum(it, a, args, kwargs):
    return _sum(it, [a] + list(args), kwargs)


@method("max")
def _m_max(it, a, args, kwargs):
    return _max(it, [a] + list(args), kwargs)


@method("min")
def _m_min(it, a, args, kwargs):
    return _min(it, [a] + list(args), kwargs)


@method("mean")
def _m_mean(it, a, args, kwargs):
    return _mean(it, [a] + list(args), kwargs)


@method("all")
def _m_all(it, a, args, kwargs):
    return _all(it, [a] + list(args), kwargs)


@method("any")
def _m_any(it, a, args, kwargs):
    return _any(it, [a] + list(args), kwargs)


@method("dot")
def _m_dot(it, a, args, kwargs):
    return binop(it, ast.MatMult(), a, args[0])


@method("conjugate", "conj")
def _m_conj(it, a, args, kwargs):
    return a
