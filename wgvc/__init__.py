"""wgvc - verification-condition generator over the real WallGo source (see DESIGN.md, section 2)."""
