"""Relational (two-run) obligations for covariance under a change of units, discharged on the summaries.

A summary of a real function is a set of paths (path condition, result) over input symbols and uninterpreted applications.
Scaling every input symbol s by lam**dim(s) and every application f(a_1..a_n) by its declared homogeneity
    f(lam**d_1 a_1, ..., lam**d_n a_n) = lam**k f(a_1, ..., a_n)
gives the summary of the run in the other unit system (the code is the same, so the second run needs no second interpretation).
Obligations:  result[scaled] == lam**k result  and  path condition[scaled] <=> path condition, for every lam > 0.
"""
from __future__ import annotations

import sympy as sp

from . import sym
from .sym import Eq, And, Implies, Gt

LAM = sp.Symbol("lam", real=True)


class ScaleError(Exception):
    pass


def scale(e, symdims: dict, fundims: dict):
    """e with every symbol s replaced by lam**symdims[s] * s and every spec application rewritten by its homogeneity."""
    e = sym.to_sym(e)

    def rec(x):
        if isinstance(x, sp.Symbol):
            if x.name.startswith("?") or x.is_integer:
                return x
            d = symdims.get(x.name)
            if d is None:
                d = _prefix_dim(x.name, symdims)
            if d is None:
                raise ScaleError(f"no dimension declared for symbol {x.name}")
            return x if d == 0 else LAM**d * x
        if isinstance(x, sp.Function) and type(x).__name__ in fundims:
            argd, k = fundims[type(x).__name__]
            new_args = []
            for a, d in zip(x.args, argd):
                sa = rec(a)
                if d != 0:
                    sa = sp.simplify(sa / LAM**d)
                if sa.has(LAM):
                    sa2 = sp.simplify(sp.powsimp(sp.expand(sa), force=True))
                    if sa2.has(LAM):
                        raise ScaleError(f"argument {a} of {type(x).__name__} does not scale as lam**{d}")
                    sa = sa2
                new_args.append(sa)
            inner = type(x)(*new_args)
            return inner if k == 0 else LAM**k * inner
        if isinstance(x, sp.Function) and not x.args:
            return x
        if not x.args:
            return x
        return x.func(*[rec(a) for a in x.args])
    return rec(e)


def _prefix_dim(name, symdims):
    """fresh names carry suffixes (#k) and indices: 'root#2', 'w0.r3' ... : longest declared prefix wins"""
    best = None
    for k, d in symdims.items():
        if k.endswith("*") and name.startswith(k[:-1]):
            if best is None or len(k) > len(best[0]):
                best = (k, d)
    return best[1] if best else None


def covariance_vcs(chk, name, facts, value, k, symdims, fundims, func=""):
    """value[scaled] == lam**k * value under the (unscaled and scaled) facts."""
    try:
        sv = scale(value, symdims, fundims)
        sfacts = [scale(f, symdims, fundims) for f in facts]
    except ScaleError as exc:
        chk.vc(name, facts, sp.false, func=func, kind="units", meta={"scale_error": str(exc)})
        return
    goal = Eq(sv, LAM**k * sym.to_sym(value))
    chk.vc(name, list(facts) + sfacts + [Gt(LAM, 0)], goal, func=func, kind="units")


def pc_invariance_vcs(chk, name, facts, pc, symdims, fundims, func=""):
    """the branch decisions of the path do not depend on the unit system: pc <=> pc[scaled]"""
    try:
        spc = [scale(c, symdims, fundims) for c in pc]
        sfacts = [scale(f, symdims, fundims) for f in facts]
    except ScaleError as exc:
        chk.vc(name, facts, sp.false, func=func, kind="units", meta={"scale_error": str(exc)})
        return
    base = list(facts) + sfacts + [Gt(LAM, 0)]
    chk.vc(name, base, And(Implies(And(*pc), And(*spc)), Implies(And(*spc), And(*pc))), func=func, kind="units")
