"""Term language (sympy) and its translation to SMT (z3 python API -> SMT-LIB text).

Encoding of Python/numpy arithmetic that is assumed (DESIGN section 2.1):
  * float is the real field, int is Z; no rounding, overflow, inf or NaN;
  * ``/`` is real division; every denominator that occurs is collected, and the verification
    condition is proved under "all collected denominators are non-zero" (``den_assumed``) --
    the terms are kept as numerator/denominator pairs and goals are cross-multiplied so the
    solver never sees a division;
  * sqrt(e) is a constant y with  e >= 0  =>  y >= 0 and y*y == e  (nothing is known about
    the square root of a negative number);
  * b**e with non-numeric exponent is  powf(b, r) * b**k  with k the integer constant part of
    e, and  b > 0 => powf(b, r) > 0;  no other law of powers is used;
  * transcendental functions are uninterpreted, with the instance axioms listed in
    ``_TRANSC_AXIOMS`` for every application that occurs.
"""
from __future__ import annotations

import itertools
import sympy as sp
from sympy.logic.boolalg import BooleanTrue, BooleanFalse, BooleanFunction
import z3

R = sp.Rational


class EncodeError(Exception):
    """Term outside the fragment that can be sent to the solver."""


# --------------------------------------------------------------------------- symbols

def real(name: str) -> sp.Symbol:
    return sp.Symbol(name, real=True)


def integer(name: str) -> sp.Symbol:
    return sp.Symbol(name, integer=True)


def boolean(name: str) -> sp.Symbol:
    return sp.Symbol("?" + name)     # sympy symbols without assumptions act as booleans here


_SPEC: dict[str, type] = {}


def specfun(name: str, derivs: list | None = None):
    """Uninterpreted real function; ``derivs[i]`` names the spec function that is its partial
    derivative with respect to argument i (None: not differentiable in that argument)."""
    if name in _SPEC:
        return _SPEC[name]

    def fdiff(self, argindex=1):
        d = derivs[argindex - 1] if derivs and argindex - 1 < len(derivs) else None
        if d is None:
            raise EncodeError(f"derivative of {name} with respect to argument {argindex} is not declared")
        return (d if isinstance(d, type) else specfun(d))(*self.args)

    cls = type(name, (sp.Function,), {"fdiff": fdiff, "_eval_is_real": lambda self: True,
                                      "_eval_is_extended_real": lambda self: True,
                                      "_eval_is_finite": lambda self: True})
    _SPEC[name] = cls
    return cls


def is_symbolic(x) -> bool:
    return isinstance(x, sp.Basic) and not isinstance(x, (sp.Number, BooleanTrue, BooleanFalse)) \
        and bool(x.free_symbols or x.atoms(sp.Function) or x.atoms(sp.NumberSymbol))


def to_sym(x):
    """Python number -> exact sympy number (floats are read as the decimal literal)."""
    if isinstance(x, sp.Basic):
        return x
    if isinstance(x, bool):
        return sp.true if x else sp.false
    if isinstance(x, int):
        return sp.Integer(x)
    if isinstance(x, float):
        if x != x or x in (float("inf"), float("-inf")):
            return sp.oo if x > 0 else (-sp.oo if x < 0 else sp.nan)
        return sp.Rational(repr(x))
    raise EncodeError(f"cannot lift {type(x).__name__} to a term")


def Eq(a, b):
    a, b = to_sym(a), to_sym(b)
    if a == b:
        return sp.true
    if a.is_number and b.is_number:
        return sp.Eq(a, b)
    return sp.Eq(a, b, evaluate=False)


def _rel(cls, a, b):
    a, b = to_sym(a), to_sym(b)
    if a.is_number and b.is_number:
        return cls(a, b)
    return cls(a, b, evaluate=False)


def Lt(a, b):
    return _rel(sp.Lt, a, b)


def Le(a, b):
    return _rel(sp.Le, a, b)


def Gt(a, b):
    return _rel(sp.Gt, a, b)


def Ge(a, b):
    return _rel(sp.Ge, a, b)


def Ne(a, b):
    return sp.Not(Eq(a, b))


def And(*xs):
    return sp.And(*[to_sym(x) for x in xs])


def Or(*xs):
    return sp.Or(*[to_sym(x) for x in xs])


def Not(x):
    return sp.Not(to_sym(x))


def Implies(a, b):
    return sp.Or(sp.Not(to_sym(a)), to_sym(b))


# --------------------------------------------------------------------------- encoder

_TRANSC = {
    sp.tanh: "tanh", sp.cosh: "cosh", sp.sinh: "sinh", sp.exp: "exp", sp.log: "log",
    sp.atanh: "atanh", sp.tan: "tan", sp.atan: "atan", sp.sin: "sin", sp.cos: "cos",
}


import re as _re


def smt_name(name: str) -> str:
    """Symbol names that every SMT-LIB reader accepts unquoted."""
    return _re.sub(r"[^A-Za-z0-9_.!]", lambda m: {"#": "!", "?": "b!", "'": "!prime"}.get(m.group(0), "_"), name)


class Encoder:
    """sympy -> z3. One encoder per verification condition (side axioms are collected)."""

    def __init__(self, ack: bool = True, abstract: bool = False):
        self.ack = ack                # Ackermann reduction: applications become constants + congruence
        self.abstract = abstract      # every non-linear subterm becomes one fresh real constant (a relaxation: only unsat is meaningful)
        self._abs: dict = {}
        self.apps: dict = {}          # function name -> list of (arg terms, constant)
        self.app_terms: dict = {}     # Ackermann constant name -> sympy application
        self.side: list = []          # axioms about sqrt / pow / transcendental instances
        self.dens: list = []          # z3 terms assumed non-zero
        self._den_keys: set = set()
        self._sqrt: dict = {}
        self._cache: dict = {}
        self._funcs: dict = {}
        self._fresh = itertools.count()
        self.used_axioms: set = set()

    # ---- helpers
    def _fn(self, name: str, arity: int):
        """Applicable object for an uninterpreted real function."""
        key = (name, arity)
        if key not in self._funcs:
            if self.ack:
                def apply(*args, _name=name):
                    k = (_name, tuple(a.get_id() for a in args))
                    if k not in self._cache:
                        c = z3.Real(smt_name(f"app.{_name}.{len(self.apps.setdefault(_name, []))}"))
                        self.apps[_name].append((args, c))
                        self._cache[k] = c
                    return self._cache[k]
                self._funcs[key] = apply
            else:
                self._funcs[key] = z3.Function(name, *([z3.RealSort()] * (arity + 1)))
        return self._funcs[key]

    def congruence(self) -> list:
        """Ackermann congruence constraints: equal arguments => equal values."""
        out = []
        for name, lst in self.apps.items():
            for i in range(len(lst)):
                for j in range(i + 1, len(lst)):
                    (a1, c1), (a2, c2) = lst[i], lst[j]
                    if len(a1) != len(a2):
                        continue
                    out.append(z3.Implies(z3.And(*[x == y for x, y in zip(a1, a2)]), c1 == c2))
        return out

    def index_constants(self) -> list:
        """Ackermann constants that occur inside the argument list of another application
        (index-like values: fixing them makes the rest of the query low-degree)."""
        names = {str(c) for lst in self.apps.values() for _, c in lst}
        out = set()
        for lst in self.apps.values():
            for args, _ in lst:
                for a in args:
                    stack = [a]
                    while stack:
                        t = stack.pop()
                        if z3.is_const(t) and str(t) in names:
                            out.add(str(t))
                        stack.extend(t.children())
        return sorted(out)

    def app_names(self) -> dict:
        """constant name -> readable application, for models"""
        return {str(c): f"{name}({', '.join(str(a) for a in args)})" for name, lst in self.apps.items() for args, c in lst}

    def _single(self, e):
        """One z3 term for a sympy real term (uses z3 division only when unavoidable)."""
        n, d = self.rat(e)
        if d is None:
            return n
        self._note_den(d)
        return n / d

    def _note_den(self, d):
        k = d.get_id() if hasattr(d, "get_id") else str(d)
        if k not in self._den_keys:
            self._den_keys.add(k)
            self.dens.append(d)

    @staticmethod
    def _mul(a, b):
        if a is None:
            return b
        if b is None:
            return a
        return a * b

    # ---- real terms as (numerator, denominator|None)
    def rat(self, e):
        e = to_sym(e)
        if e in self._cache:
            return self._cache[e]
        if self.abstract and self._nonlinear(e):
            if e not in self._abs:
                self._abs[e] = z3.Real(f"abs!{len(self._abs)}")
            r = (self._abs[e], None)
        else:
            r = self._rat(e)
        self._cache[e] = r
        return r

    @staticmethod
    def _nonlinear(e) -> bool:
        if isinstance(e, sp.Mul):
            return sum(1 for t in e.args if not t.is_number) >= 2 or any(isinstance(t, sp.Pow) and not t.is_number for t in e.args)
        if isinstance(e, sp.Pow):
            return not e.is_number
        if isinstance(e, sp.Function) and not isinstance(e, (sp.Abs, sp.Max, sp.Min, sp.Piecewise, sp.sign, sp.floor)):
            return True
        return False

    def _rat(self, e):
        if isinstance(e, sp.Integer):
            return (z3.RealVal(int(e)), None)
        if isinstance(e, sp.Rational):
            return (z3.RealVal(int(e.p)), z3.RealVal(int(e.q)))
        if isinstance(e, sp.Float):
            q = sp.Rational(str(e))
            return self._rat(q)
        if e is sp.pi:
            p = z3.Real("pi")
            ax = z3.And(p > z3.RealVal("3.14159"), p < z3.RealVal("3.1416"))
            if "pi" not in self.used_axioms:
                self.used_axioms.add("pi")
                self.side.append(ax)
            return (p, None)
        if isinstance(e, sp.Symbol):
            if e.is_integer:
                return (z3.ToReal(z3.Int(smt_name(e.name))), None)
            return (z3.Real(smt_name(e.name)), None)
        if isinstance(e, sp.Add):
            num, den = None, None
            for t in e.args:
                n, d = self.rat(t)
                if num is None:
                    num, den = n, d
                elif (d is None and den is None) or (d is not None and den is not None and d.eq(den)):
                    num = num + n
                else:
                    num = self._mul(num, d) + self._mul(n, den)
                    den = self._mul(den, d)
            return (num, den)
        if isinstance(e, sp.Mul):
            num, den = None, None
            # b**x * b**y = b**(x+y) for symbolic exponents (real powers are only defined for b > 0)
            groups: dict = {}
            rest_args = []
            for t in e.args:
                if isinstance(t, sp.Pow) and not t.exp.is_number:
                    groups.setdefault(t.base, []).append(t.exp)
                else:
                    rest_args.append(t)
            for base, exps in groups.items():
                if len(exps) > 1:
                    self.used_axioms.add("law b**x * b**y = b**(x+y)")
                rest_args.append(sp.Pow(base, sp.Add(*exps), evaluate=False) if not sp.Add(*exps).is_number
                                 else sp.Pow(base, sp.Add(*exps)))
            for t in rest_args:
                n, d = self.rat(t) if not (isinstance(t, sp.Pow) and not t.exp.is_number) else self._pow(t.base, t.exp)
                num = self._mul(num, n)
                den = self._mul(den, d)
            return (num, den)
        if isinstance(e, sp.Pow):
            return self._pow(e.base, e.exp)
        if isinstance(e, sp.Abs):
            x = self._single(e.args[0])
            return (z3.If(x >= 0, x, -x), None)
        if isinstance(e, sp.sign):
            x = self._single(e.args[0])
            return (z3.If(x > 0, z3.RealVal(1), z3.If(x < 0, z3.RealVal(-1), z3.RealVal(0))), None)
        if isinstance(e, (sp.Max, sp.Min)):
            xs = [self._single(a) for a in e.args]
            acc = xs[0]
            for x in xs[1:]:
                acc = z3.If(acc >= x, acc, x) if isinstance(e, sp.Max) else z3.If(acc <= x, acc, x)
            return (acc, None)
        if isinstance(e, sp.Piecewise):
            acc = None
            for val, cond in reversed(e.args):
                v = self._single(val)
                if acc is None:
                    if cond is not sp.true:
                        # no default branch: unspecified value outside the conditions
                        acc = z3.If(self.boolean(cond), v, z3.Real(f"pw!{next(self._fresh)}"))
                    else:
                        acc = v
                else:
                    acc = z3.If(self.boolean(cond), v, acc)
            return (acc, None)
        if isinstance(e, sp.floor):
            x = self._single(e.args[0])
            return (z3.ToReal(z3.ToInt(x)), None)
        if isinstance(e, sp.Mod):
            a, b = e.args
            if not (a.is_integer and b.is_integer):
                raise EncodeError(f"Mod on non-integers: {e}")
            return (z3.ToReal(self.intterm(a) % self.intterm(b)), None)
        if type(e) in _TRANSC:
            return (self._transc(_TRANSC[type(e)], e.args[0]), None)
        if isinstance(e, sp.re):
            return self.rat(e.args[0])
        if isinstance(e, sp.Function):       # spec / uninterpreted functions
            name = type(e).__name__
            args = [self._single(a) for a in e.args]
            c = self._fn(name, len(args))(*args)
            if self.ack:
                self.app_terms[str(c)] = e          # constant name -> the application (for models and replays)
            return (c, None)
        raise EncodeError(f"no SMT encoding for {type(e).__name__}: {e}")

    def intterm(self, e):
        e = to_sym(e)
        if isinstance(e, sp.Integer):
            return z3.IntVal(int(e))
        if isinstance(e, sp.Symbol) and e.is_integer:
            return z3.Int(smt_name(e.name))
        if isinstance(e, sp.Add):
            acc = None
            for t in e.args:
                x = self.intterm(t)
                acc = x if acc is None else acc + x
            return acc
        if isinstance(e, sp.Mul):
            acc = None
            for t in e.args:
                x = self.intterm(t)
                acc = x if acc is None else acc * x
            return acc
        if isinstance(e, sp.Pow) and isinstance(e.exp, sp.Integer) and e.exp >= 0:
            b = self.intterm(e.base)
            acc = z3.IntVal(1)
            for _ in range(int(e.exp)):
                acc = acc * b
            return acc
        if isinstance(e, sp.Mod):
            return self.intterm(e.args[0]) % self.intterm(e.args[1])
        if isinstance(e, sp.floor):
            inner = e.args[0]
            n, d = sp.fraction(sp.together(inner))
            if n.is_integer and isinstance(d, sp.Integer) and d > 0:
                return self.intterm(n) / self.intterm(d)       # python // and SMT div agree for positive divisors
        if isinstance(e, sp.Piecewise):
            acc = None
            for val, cond in reversed(e.args):
                v = self.intterm(val)
                acc = v if acc is None and cond is sp.true else z3.If(self.boolean(cond), v, acc if acc is not None else z3.Int(f"pw!{next(self._fresh)}"))
            return acc
        raise EncodeError(f"no integer encoding for {e}")

    def _pow(self, base, exp):
        if isinstance(base, sp.Pow) and not base.exp.is_number:
            # (b**x)**y = b**(x*y) for b > 0 (real powers with symbolic exponents are only defined there)
            self.used_axioms.add("law (b**x)**y = b**(x*y)")
            return self._pow(base.base, sp.simplify(base.exp * exp))
        if isinstance(exp, sp.Integer):
            k = int(exp)
            n, d = self.rat(base)
            if k == 0:
                return (z3.RealVal(1), None)
            if k > 40 or k < -40:
                raise EncodeError(f"power {k} too large")

            def rep(x, m):
                if x is None:
                    return None
                acc = x
                for _ in range(m - 1):
                    acc = acc * x
                return acc
            if k > 0:
                return (rep(n, k), rep(d, k))
            # negative power: 1/base^|k|
            num = rep(d, -k)
            den = rep(n, -k)
            self._note_den(den)
            return (num if num is not None else z3.RealVal(1), den)
        if isinstance(exp, sp.Rational) and exp.q == 2:
            y = self._sqrtvar(base)
            p = int(exp.p)
            return self._pow_z3(y, p)
        exp = sp.expand(exp)      # canonical form of the exponent: (nu - mu)/nu -> 1 - mu/nu
        # symbolic exponent: (prod f_i**k_i)**e = prod f_i**(k_i e) for positive factors
        if isinstance(base, (sp.Mul, sp.Pow)):
            factors = base.as_powers_dict()
            if len(factors) > 1 or any(k != 1 for k in factors.values()):
                # (a*b)**x = a**x * b**x holds for POSITIVE a, b: the power of the whole base is its own term, and the product form is
                # offered as a conditional law (all factors positive => equal).  Nothing is assumed about the signs of the factors.
                self.used_axioms.add("law (a*b)**x = a**x * b**x, conditional on every factor being positive")
                num, den = None, None
                conds = []
                for f_, k_ in factors.items():
                    if f_.is_number and f_ == 1:
                        continue
                    if not (f_.is_number and f_ > 0):
                        fn_, fd_ = self.rat(f_)
                        conds.append((fn_ * fd_ if fd_ is not None else fn_) > 0)
                    n_, d_ = self._pow(f_, sp.simplify(k_ * exp))
                    num = self._mul(num, n_)
                    den = self._mul(den, d_)
                num = num if num is not None else z3.RealVal(1)
                wn, wd = self._pow_atomic(base, exp)
                lhs = self._mul(wn, den)
                rhs = self._mul(num, wd)
                self.side.append(z3.Implies(z3.And(*conds) if conds else z3.BoolVal(True), lhs == rhs))
                return (wn, wd)
        return self._pow_atomic(base, exp)

    def _pow_atomic(self, base, exp):
        """base**exp with a symbolic exponent, base taken as one term"""
        k, rest = exp.as_coeff_Add()
        if not (isinstance(k, sp.Integer) or k == 0):
            frac = k - sp.floor(k)
            k, rest = sp.floor(k), rest + frac
        if isinstance(rest, sp.Add) and len(rest.args) > 1:
            # b**(x+y) = b**x * b**y : one uninterpreted power per summand of the exponent
            self.used_axioms.add("law b**x * b**y = b**(x+y)")
            num, den = self._pow_z3(self._single(base), int(k)) if int(k) != 0 else (None, None)
            for t_ in rest.args:
                n_, d_ = self._pow_atomic(base, t_)
                num = self._mul(num, n_)
                den = self._mul(den, d_)
            return (num if num is not None else z3.RealVal(1), den)
        b = self._single(base)
        inverted = False
        if rest.could_extract_minus_sign():
            # b**(-r) = 1 / b**r  (b > 0)
            rest, inverted = -rest, True
            self.used_axioms.add("law b**(-x) = 1/b**x")
        r = self._single(rest)
        pf = self._fn("powf", 2)(b, r)
        key = ("powf", b.get_id(), r.get_id())
        if key not in self.used_axioms:
            self.used_axioms.add(key)
            self.side.append(z3.Implies(b > 0, pf > 0))
        n2, d2 = self._pow_z3(b, int(k)) if int(k) != 0 else (None, None)
        if inverted:
            self._note_den(pf)
            return (n2 if n2 is not None else z3.RealVal(1), self._mul(pf, d2))
        return (self._mul(pf, n2), d2)

    def _pow_z3(self, y, p):
        if p == 0:
            return (z3.RealVal(1), None)
        acc = y
        for _ in range(abs(p) - 1):
            acc = acc * y
        if p > 0:
            return (acc, None)
        self._note_den(acc)
        return (z3.RealVal(1), acc)

    def _sqrtvar(self, radicand):
        radicand = to_sym(radicand)
        if radicand in self._sqrt:
            return self._sqrt[radicand]
        n, d = self.rat(radicand)
        y = z3.Real(f"sqrt!{len(self._sqrt)}")
        self._sqrt[radicand] = y
        if d is None:
            self.side.append(z3.Implies(n >= 0, z3.And(y >= 0, y * y == n)))
        else:
            self._note_den(d)
            self.side.append(z3.Implies(n * d >= 0, z3.And(y >= 0, y * y * d == n)))
        return y

    def _transc(self, name, arg):
        x = self._single(arg)
        f = self._fn(name, 1)
        fx = f(x)
        key = (name, x.get_id())
        if key in self.used_axioms:
            return fx
        self.used_axioms.add(key)
        if name == "exp":
            self.side.append(fx > 0)
            neg = f(-x)                      # exp(x) exp(-x) = 1
            self.used_axioms.add((name, (-x).get_id()))
            self.side.append(z3.And(neg > 0, fx * neg == 1))
        elif name == "cosh":
            self.side.append(fx >= 1)
            t = self._fn("tanh", 1)(x)
            s = self._fn("sinh", 1)(x)
            self.side.append(z3.And(t > -1, t < 1, fx * fx * (1 - t * t) == 1, s == t * fx))
        elif name == "tanh":
            self.side.append(z3.And(fx > -1, fx < 1))
            c = self._fn("cosh", 1)(x)
            self.side.append(z3.And(c >= 1, c * c * (1 - fx * fx) == 1))
        elif name == "sinh":
            c = self._fn("cosh", 1)(x)
            self.side.append(z3.And(c >= 1, c * c - fx * fx == 1))
        elif name in ("sin", "cos"):
            s = self._fn("sin", 1)(x)
            c = self._fn("cos", 1)(x)
            self.side.append(s * s + c * c == 1)
        elif name == "atan":
            pi = self._single(sp.pi)
            self.side.append(z3.And(2 * fx > -pi, 2 * fx < pi))
            self.side.append(self._fn("tan", 1)(fx) == x)
        elif name == "atanh":
            self.side.append(z3.Implies(z3.And(x > -1, x < 1), self._fn("tanh", 1)(fx) == x))
            if isinstance(arg, sp.tanh):        # artanh(tanh y) = y (tanh is injective on the reals)
                self.side.append(fx == self._single(arg.args[0]))
        elif name == "log":
            if isinstance(arg, sp.exp):         # log(exp y) = y for real y
                self.side.append(fx == self._single(arg.args[0]))
            self.side.append(z3.Implies(x > 0, self._fn("exp", 1)(fx) == x))
        return fx

    # ---- booleans
    def boolean(self, b):
        b = to_sym(b)
        if b is sp.true:
            return z3.BoolVal(True)
        if b is sp.false:
            return z3.BoolVal(False)
        if isinstance(b, sp.Symbol):
            if not b.name.startswith("?"):
                raise EncodeError(f"real symbol {b} used as a boolean")
            return z3.Bool(smt_name(b.name))
        if isinstance(b, sp.And):
            return z3.And(*[self.boolean(a) for a in b.args])
        if isinstance(b, sp.Or):
            return z3.Or(*[self.boolean(a) for a in b.args])
        if isinstance(b, sp.Not):
            return z3.Not(self.boolean(b.args[0]))
        if isinstance(b, sp.Implies):
            return z3.Implies(self.boolean(b.args[0]), self.boolean(b.args[1]))
        if isinstance(b, sp.ITE):
            return z3.If(*[self.boolean(a) for a in b.args])
        if isinstance(b, (sp.Eq, sp.Ne, sp.Lt, sp.Le, sp.Gt, sp.Ge)):
            lhs, rhs = b.args
            if getattr(lhs, "is_Boolean", False) or getattr(rhs, "is_Boolean", False):
                l, r = self.boolean(lhs), self.boolean(rhs)
                return l == r if isinstance(b, sp.Eq) else l != r
            if lhs.is_integer and rhs.is_integer:
                try:
                    l, r = self.intterm(lhs), self.intterm(rhs)
                    return {sp.Eq: l == r, sp.Ne: l != r, sp.Lt: l < r, sp.Le: l <= r,
                            sp.Gt: l > r, sp.Ge: l >= r}[type(b)]
                except EncodeError:
                    pass
            ln, ld = self.rat(lhs)
            rn, rd = self.rat(rhs)
            for d in (ld, rd):
                if d is not None:
                    self._note_den(d)
            N_l = self._mul(ln, rd)
            N_r = self._mul(rn, ld)
            if isinstance(b, sp.Eq):
                return N_l == N_r
            if isinstance(b, sp.Ne):
                return N_l != N_r
            D = self._mul(ld, rd)
            diff = N_l - N_r
            if D is not None and not z3.is_rational_value(D):
                diff = diff * D        # sign(a-b) = sign(N*D) when D != 0
            elif D is not None and D.as_fraction() < 0:
                diff = -diff
            zero = z3.RealVal(0)
            return {sp.Lt: diff < zero, sp.Le: diff <= zero, sp.Gt: diff > zero, sp.Ge: diff >= zero}[type(b)]
        raise EncodeError(f"no SMT encoding for boolean {type(b).__name__}: {b}")


# --------------------------------------------------------------------------- numeric evaluation

def num_eval(e, env: dict, funcs: dict):
    """Evaluate a term with floats: ``env`` maps symbol name -> value, ``funcs`` maps function
    name -> python callable. Used by the CPython cross-check."""
    import math
    e = to_sym(e)
    if isinstance(e, sp.Number):
        return float(e)
    if e is sp.pi:
        return math.pi
    if isinstance(e, sp.Symbol):
        return env[e.name]
    if isinstance(e, sp.Add):
        return sum(num_eval(a, env, funcs) for a in e.args)
    if isinstance(e, sp.Mul):
        r = 1.0
        for a in e.args:
            r *= num_eval(a, env, funcs)
        return r
    if isinstance(e, sp.Pow):
        return num_eval(e.base, env, funcs) ** num_eval(e.exp, env, funcs)
    if isinstance(e, sp.Abs):
        return abs(num_eval(e.args[0], env, funcs))
    if isinstance(e, sp.Max):
        return max(num_eval(a, env, funcs) for a in e.args)
    if isinstance(e, sp.Min):
        return min(num_eval(a, env, funcs) for a in e.args)
    if isinstance(e, sp.Piecewise):
        for val, cond in e.args:
            if bool_eval(cond, env, funcs):
                return num_eval(val, env, funcs)
        return float("nan")
    if type(e) is sp.atanh:
        x = num_eval(e.args[0], env, funcs)          # Re artanh(x): the code takes .real of the complex value
        return 0.5 * math.log(abs((1 + x) / (1 - x)))
    if type(e) in _TRANSC:
        return getattr(math, _TRANSC[type(e)])(num_eval(e.args[0], env, funcs))
    if isinstance(e, sp.Function):
        return funcs[type(e).__name__](*[num_eval(a, env, funcs) for a in e.args])
    raise EncodeError(f"num_eval: {type(e).__name__}")


def bool_eval(b, env, funcs):
    b = to_sym(b)
    if b is sp.true:
        return True
    if b is sp.false:
        return False
    if isinstance(b, sp.And):
        return all(bool_eval(a, env, funcs) for a in b.args)
    if isinstance(b, sp.Or):
        return any(bool_eval(a, env, funcs) for a in b.args)
    if isinstance(b, sp.Not):
        return not bool_eval(b.args[0], env, funcs)
    if isinstance(b, sp.Symbol):
        return bool(env[b.name])
    l, r = (num_eval(a, env, funcs) for a in b.args)
    return {sp.Eq: l == r, sp.Ne: l != r, sp.Lt: l < r, sp.Le: l <= r, sp.Gt: l > r, sp.Ge: l >= r}[type(b)]
