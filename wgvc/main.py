"""Command line: ./check <Cxx|all> [--tier quick|thorough]"""
from __future__ import annotations

import argparse
import importlib
import os
import pkgutil
import sys
import traceback

from . import source
from .api import Check, CheckFault, EXIT_OK, EXIT_VIOLATION, EXIT_UNDECIDED, EXIT_FAULT, VERIF
from .interp import Undecided
from .sym import EncodeError


def contract_modules():
    import contracts
    mods = {}
    for m in pkgutil.iter_modules(contracts.__path__):
        if m.name[0] == "C" and m.name[1:3].isdigit():
            mods[m.name[:3]] = f"contracts.{m.name}"
    return mods


def run_property(prop: str, tier: str, seed: int) -> int:
    mods = contract_modules()
    if prop not in mods:
        print(f"no contract module for {prop}")
        return EXIT_FAULT
    chk = Check(prop, tier, seed)
    # wall-clock budget of the symbolic interpretation (VC generation): a change that makes a summary explode must end as
    # "undecided" in bounded time, not hang the check
    import signal
    budget = int(os.environ.get("WGVC_BUILD_BUDGET_S", "1500" if tier == "quick" else "5400"))

    def on_alarm(signum, frame):
        raise Undecided(f"interpretation of the contracted functions exceeded the time budget of {budget} s")
    try:
        mod = importlib.import_module(mods[prop])
        chk.level = getattr(mod, "LEVEL", "proof")
        chk.explanation = getattr(mod, "EXPLANATION", "")
        old = signal.signal(signal.SIGALRM, on_alarm)
        signal.alarm(budget)
        try:
            mod.build(chk)
        finally:
            signal.alarm(0)
            signal.signal(signal.SIGALRM, old)
        chk.run()
        return chk.finish([], getattr(mod, "MIN_OBLIGATIONS", 1))
    except (Undecided, source.SourceError, EncodeError) as exc:
        # the tree uses a construct outside the verified subset, or a contracted function is gone
        chk.undecided.append(f"{type(exc).__name__}: {exc}")
        try:
            chk.run()
            rc = chk.finish([], 0)
        except Exception:
            traceback.print_exc()
            return EXIT_FAULT
        return rc if rc in (EXIT_VIOLATION, EXIT_FAULT) else EXIT_UNDECIDED
    except CheckFault as exc:
        print(f"CHECKER-FAULT property={prop} {exc}")
        return EXIT_FAULT
    except Exception:
        traceback.print_exc()
        print(f"CHECKER-FAULT property={prop} internal error")
        return EXIT_FAULT


def self_check() -> int:
    """Offline setup check: solvers callable, real package importable by the replay interpreter."""
    import subprocess
    import z3
    ok = True
    s = z3.Solver()
    x = z3.Real("x")
    s.add(x * x == 2, x > 0)
    ok &= str(s.check()) == "sat"
    for cmd in (["/usr/bin/cvc5", "--version"], ["/usr/bin/z3", "--version"]):
        try:
            subprocess.run(cmd, capture_output=True, timeout=30, check=True)
        except Exception as exc:
            print(f"self-check: {cmd[0]} not usable ({exc}); only z3 5.1 will be used")
    r = subprocess.run(["/venv/bin/python", "-c", "import WallGo, sys; sys.stdout.write(WallGo.__file__)"],
                       capture_output=True, text=True, timeout=300)
    if r.returncode != 0:
        print("self-check: /venv/bin/python cannot import WallGo (native replays will be reported as not executable)")
    source.load_module("thermodynamics")
    print("self-check", "ok" if ok else "FAILED")
    return 0 if ok else 3


def main(argv=None) -> int:
    argv = list(sys.argv[1:] if argv is None else argv)
    if argv and argv[0] == "--self-check":
        return self_check()
    ap = argparse.ArgumentParser()
    ap.add_argument("prop")
    ap.add_argument("--tier", default=os.environ.get("VERIF_TIER", "quick"), choices=["quick", "thorough"])
    ap.add_argument("--replay")
    args = ap.parse_args(argv)
    seed = int(os.environ.get("VERIF_SEED", "0") or 0)
    sys.path.insert(0, VERIF)
    if args.replay:
        from . import replay
        return replay.main(args.replay)
    if args.prop == "all":
        rc = 0
        for p in sorted(contract_modules()):
            rc = max(rc, run_property(p, args.tier, seed))
        return rc
    return run_property(args.prop, args.tier, seed)


if __name__ == "__main__":
    sys.exit(main())
