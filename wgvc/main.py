"""Command line: ./check <Cxx|all> [--tier quick|thorough]"""
from __future__ import annotations

import argparse
import importlib
import os
import pkgutil
import sys
import traceback

from . import source
from .api import Check, CheckFault, EXIT_OK, EXIT_VIOLATION, EXIT_UNDECIDED, EXIT_FAULT, VERIF
from .interp import Undecided
from .sym import EncodeError


def contract_modules():
    import contracts
    mods = {}
    for m in pkgutil.iter_modules(contracts.__path__):
        if m.name[0] == "C" and m.name[1:3].isdigit():
            mods[m.name[:3]] = f"contracts.{m.name}"
    return mods


def run_property(prop: str, tier: str, seed: int) -> int:
    mods = contract_modules()
    if prop not in mods:
        print(f"no contract module for {prop}")
        return EXIT_FAULT
    chk = Check(prop, tier, seed)
    try:
        mod = importlib.import_module(mods[prop])
        chk.level = getattr(mod, "LEVEL", "proof")
        chk.explanation = getattr(mod, "EXPLANATION", "")
        mod.build(chk)
        chk.run()
        return chk.finish([], getattr(mod, "MIN_OBLIGATIONS", 1))
    except (Undecided, source.SourceError, EncodeError) as exc:
        # the tree uses a construct outside the verified subset, or a contracted function is gone
        chk.undecided.append(f"{type(exc).__name__}: {exc}")
        try:
            chk.run()
            rc = chk.finish([], 0)
        except Exception:
            traceback.print_exc()
            return EXIT_FAULT
        return rc if rc in (EXIT_VIOLATION, EXIT_FAULT) else EXIT_UNDECIDED
    except CheckFault as exc:
        print(f"CHECKER-FAULT property={prop} {exc}")
        return EXIT_FAULT
    except Exception:
        traceback.print_exc()
        print(f"CHECKER-FAULT property={prop} internal error")
        return EXIT_FAULT


def main(argv=None) -> int:
    ap = argparse.ArgumentParser()
    ap.add_argument("prop")
    ap.add_argument("--tier", default=os.environ.get("VERIF_TIER", "quick"), choices=["quick", "thorough"])
    ap.add_argument("--replay")
    args = ap.parse_args(argv)
    seed = int(os.environ.get("VERIF_SEED", "0") or 0)
    sys.path.insert(0, VERIF)
    if args.replay:
        from . import replay
        return replay.main(args.replay)
    if args.prop == "all":
        rc = 0
        for p in sorted(contract_modules()):
            rc = max(rc, run_property(p, args.tier, seed))
        return rc
    return run_property(args.prop, args.tier, seed)


if __name__ == "__main__":
    sys.exit(main())
