"""Assumed contracts of external numerical routines (DESIGN section 5.4).

Each stub evaluates the *real* closure it is given symbolically, records a ghost event, and
returns a result object constrained by the documented guarantee of the routine -- never more.
"""
from __future__ import annotations

import numpy as np
import sympy as sp

from . import sym
from .interp import SymObj, PyExc, Undecided, Opaque
from .builtins_model import as_array, norm
from .sym import Eq, And, Or, Implies, Le, Ge, Gt

ASSUMED = {
    "root_scalar": "scipy.optimize.root_scalar(bracket): evaluates f at both ends, raises ValueError unless f(a)*f(b) <= 0; "
                   "returns root in the bracket; converged => f(root) = 0 (idealised: the documented guarantee is |root-x*| <= xtol + rtol*|x*|); "
                   "side effects of f are those of its evaluation at a, b and the returned root",
    "root_scalar.secant": "scipy.optimize.root_scalar(secant): converged => f(root) = 0, nothing else",
    "minimize_scalar": "scipy.optimize.minimize_scalar(Bounded): x lies in the bounds and fun = f(x); optimality is NOT assumed",
    "root": "scipy.optimize.root(hybr): fun = f(x); success => fun = 0; nothing is known about x when success is False",
}


def _extra(args, kwargs, pos=None):
    """extra arguments for the callback: keyword ``args`` or the positional slot ``pos`` of the scipy signature"""
    extra = kwargs.get("args", args[pos] if pos is not None and len(args) > pos and isinstance(args[pos], (tuple, list)) else ())
    return list(extra) if isinstance(extra, (tuple, list)) else [extra]


def root_scalar(it, args, kwargs):
    f = args[0]
    extra = _extra(args, kwargs, pos=1)
    bracket = kwargs.get("bracket")
    method = kwargs.get("method")
    site = it.callstack[-1] if it.callstack else ""
    ev = dict(kind="root_scalar", site=site, f=f, a=None, b=None, fa=None, fb=None, xtol=kwargs.get("xtol"),
              rtol=kwargs.get("rtol"), method=method, x0=kwargs.get("x0"), x1=kwargs.get("x1"), pc_len=len(it.pc))
    # ghost evaluation at an unconstrained argument: what function the root finder is given
    k = sum(1 for e in it.events if e.get("kind") == "root_scalar")
    g = it.fresh_real(f"rs{k}_generic")
    ev.update(generic_x=g, generic_f=it.call(f, [g] + extra, {}))
    if bracket is not None:
        it.assumed.append(ASSUMED["root_scalar"])
        a, b = [norm(x) for x in it.iterate(bracket)]
        fa = it.call(f, [a] + extra, {})
        fb = it.call(f, [b] + extra, {})
        ev.update(a=a, b=b, fa=fa, fb=fb, pc_len=len(it.pc))
        it.events.append(ev)
        if it.truth(Gt(sym.to_sym(fa) * sym.to_sym(fb), 0)):
            ev["raised"] = True
            raise PyExc("ValueError", ("f(a) and f(b) must have different signs",))
        r = it.fresh_real("root")
        it.assume(Or(And(Le(a, r), Le(r, b)), And(Le(b, r), Le(r, a))))
    else:
        it.assumed.append(ASSUMED["root_scalar.secant"])
        it.events.append(ev)
        r = it.fresh_real("root")
    conv = it.fresh_bool("converged")
    fr = it.call(f, [r] + extra, {})
    it.assume(Implies(conv, Eq(fr, 0)))
    ev.update(root=r, converged=conv, froot=fr)
    return SymObj(None, None, attrs={"root": r, "converged": conv, "flag": "<flag>", "iterations": it.fresh_int("iterations"),
                                     "function_calls": it.fresh_int("function_calls")}, label="RootResults")


def minimize_scalar(it, args, kwargs):
    it.assumed.append(ASSUMED["minimize_scalar"])
    f = args[0]
    extra = _extra(args, kwargs)
    bounds = kwargs.get("bounds")
    x = it.fresh_real("xmin")
    if bounds is not None:
        a, b = [norm(v) for v in it.iterate(bounds)]
        it.assume(And(Le(a, x), Le(x, b)))
    fx = it.call(f, [x] + extra, {})
    ok = it.fresh_bool("minimize_success")
    it.event(kind="minimize_scalar", site=it.callstack[-1] if it.callstack else "", x=x, fun=fx, bounds=bounds)
    return SymObj(None, None, attrs={"x": x, "fun": fx, "success": ok, "message": "<message>"}, label="OptimizeResult")


def root(it, args, kwargs):
    it.assumed.append(ASSUMED["root"])
    f, x0 = args[0], args[1]
    n = len(it.iterate(x0))
    xs = [it.fresh_real(f"hybr_x{i}") for i in range(n)]
    fx = it.call(f, [as_array(xs)] + _extra(args, kwargs), {})
    fx = as_array(list(it.iterate(fx)))
    ok = it.fresh_bool("hybr_success")
    it.assume(Implies(ok, And(*[Eq(v, 0) for v in fx.reshape(-1)])))
    it.event(kind="root", site=it.callstack[-1] if it.callstack else "", x=xs, fun=fx, success=ok, x0=x0,
             method=kwargs.get("method"), options=kwargs.get("options"))
    return SymObj(None, None, attrs={"x": as_array(xs), "fun": fx, "success": ok, "message": "<message>"}, label="OptimizeResult")


EXTERNALS = {
    "scipy.optimize.root_scalar": root_scalar,
    "scipy.optimize.minimize_scalar": minimize_scalar,
    "scipy.optimize.root": root,
}


ASSUMED["solve_ivp"] = ("scipy.integrate.solve_ivp: returns sample points t (last one the end of the integration) and the state y "
                        "there; with a terminal event the event function vanishes at the last point if the event fired (not assumed to fire); "
                        "accuracy of the integration is NOT assumed")
ASSUMED["simpson"] = "scipy.integrate.simpson(y, x): an uninterpreted linear functional of the samples; accuracy is NOT assumed"

N_SAMPLES = 2     # generic sample points of an ODE solution (elementwise code is checked on each)


def solve_ivp(it, args, kwargs):
    it.assumed.append(ASSUMED["solve_ivp"])
    fun, span, y0 = args[0], args[1], args[2]
    y0 = list(it.iterate(y0))
    k = sum(1 for e in it.events if e.get("kind") == "solve_ivp")
    ts = [it.fresh_real(f"ivp{k}_t{j}") for j in range(N_SAMPLES)]
    ys = [[it.fresh_real(f"ivp{k}_y{i}_{j}") for j in range(N_SAMPLES)] for i in range(len(y0))]
    extra = _extra(args, kwargs)
    # the right-hand side the integrator is given, evaluated at a generic state
    gv = it.fresh_real(f"ivp{k}_v")
    gy = [it.fresh_real(f"ivp{k}_s{i}") for i in range(len(y0))]
    # (an exception raised by the right-hand side propagates out of the integrator, as in scipy)
    rhs = it.call(fun, [gv, as_array(gy)] + extra, {})
    ev = dict(kind="solve_ivp", site=it.callstack[-1] if it.callstack else "", fun=fun, span=list(it.iterate(span)), y0=y0,
              events=kwargs.get("events"), rtol=kwargs.get("rtol"), atol=kwargs.get("atol"), args=extra,
              t=ts, y=ys, generic_v=gv, generic_y=gy, rhs=rhs)
    it.events.append(ev)
    return SymObj(None, None, attrs={"t": as_array(ts), "y": as_array(ys), "success": it.fresh_bool("ivp_success"),
                                     "status": it.fresh_int("ivp_status"), "message": "<message>",
                                     "t_events": Opaque("t_events") if False else None}, label="OdeResult")


def simpson(it, args, kwargs):
    it.assumed.append(ASSUMED["simpson"])
    y = kwargs.get("y", args[0] if args else None)
    x = kwargs.get("x", args[1] if len(args) > 1 else None)
    k = sum(1 for e in it.events if e.get("kind") == "simpson")
    r = it.fresh_real(f"simpson{k}")
    it.events.append(dict(kind="simpson", site=it.callstack[-1] if it.callstack else "", y=as_array(y), x=as_array(x), result=r))
    return r


EXTERNALS["scipy.integrate.solve_ivp"] = solve_ivp
EXTERNALS["scipy.integrate.simpson"] = simpson
