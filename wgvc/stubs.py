"""Assumed contracts of external numerical routines (DESIGN section 5.4).

Each stub evaluates the *real* closure it is given symbolically, records a ghost event, and
returns a result object constrained by the documented guarantee of the routine -- never more.
"""
from __future__ import annotations

import numpy as np
import sympy as sp

from . import sym
from .interp import SymObj, PyExc, Undecided
from .builtins_model import as_array, norm
from .sym import Eq, And, Or, Implies, Le, Ge, Gt

ASSUMED = {
    "root_scalar": "scipy.optimize.root_scalar(bracket): evaluates f at both ends, raises ValueError unless f(a)*f(b) <= 0; "
                   "returns root in the bracket; converged => f(root) = 0 (idealised: the documented guarantee is |root-x*| <= xtol + rtol*|x*|); "
                   "side effects of f are those of its evaluation at a, b and the returned root",
    "root_scalar.secant": "scipy.optimize.root_scalar(secant): converged => f(root) = 0, nothing else",
    "minimize_scalar": "scipy.optimize.minimize_scalar(Bounded): x lies in the bounds and fun = f(x); optimality is NOT assumed",
    "root": "scipy.optimize.root(hybr): fun = f(x); success => fun = 0; nothing is known about x when success is False",
}


def _extra(args, kwargs):
    extra = kwargs.get("args", ())
    return list(extra) if isinstance(extra, (tuple, list)) else [extra]


def root_scalar(it, args, kwargs):
    f = args[0]
    extra = _extra(args, kwargs)
    bracket = kwargs.get("bracket")
    method = kwargs.get("method")
    site = it.callstack[-1] if it.callstack else ""
    ev = dict(kind="root_scalar", site=site, f=f, a=None, b=None, fa=None, fb=None, xtol=kwargs.get("xtol"),
              rtol=kwargs.get("rtol"), method=method, x0=kwargs.get("x0"), x1=kwargs.get("x1"), pc_len=len(it.pc))
    if bracket is not None:
        it.assumed.append(ASSUMED["root_scalar"])
        a, b = [norm(x) for x in it.iterate(bracket)]
        fa = it.call(f, [a] + extra, {})
        fb = it.call(f, [b] + extra, {})
        ev.update(a=a, b=b, fa=fa, fb=fb, pc_len=len(it.pc))
        it.events.append(ev)
        if it.truth(Gt(sym.to_sym(fa) * sym.to_sym(fb), 0)):
            ev["raised"] = True
            raise PyExc("ValueError", ("f(a) and f(b) must have different signs",))
        r = it.fresh_real("root")
        it.assume(Or(And(Le(a, r), Le(r, b)), And(Le(b, r), Le(r, a))))
    else:
        it.assumed.append(ASSUMED["root_scalar.secant"])
        it.events.append(ev)
        r = it.fresh_real("root")
    conv = it.fresh_bool("converged")
    fr = it.call(f, [r] + extra, {})
    it.assume(Implies(conv, Eq(fr, 0)))
    ev.update(root=r, converged=conv, froot=fr)
    return SymObj(None, None, attrs={"root": r, "converged": conv, "flag": "<flag>", "iterations": it.fresh_int("iterations"),
                                     "function_calls": it.fresh_int("function_calls")}, label="RootResults")


def minimize_scalar(it, args, kwargs):
    it.assumed.append(ASSUMED["minimize_scalar"])
    f = args[0]
    extra = _extra(args, kwargs)
    bounds = kwargs.get("bounds")
    x = it.fresh_real("xmin")
    if bounds is not None:
        a, b = [norm(v) for v in it.iterate(bounds)]
        it.assume(And(Le(a, x), Le(x, b)))
    fx = it.call(f, [x] + extra, {})
    ok = it.fresh_bool("minimize_success")
    it.event(kind="minimize_scalar", site=it.callstack[-1] if it.callstack else "", x=x, fun=fx, bounds=bounds)
    return SymObj(None, None, attrs={"x": x, "fun": fx, "success": ok, "message": "<message>"}, label="OptimizeResult")


def root(it, args, kwargs):
    it.assumed.append(ASSUMED["root"])
    f, x0 = args[0], args[1]
    n = len(it.iterate(x0))
    xs = [it.fresh_real(f"hybr_x{i}") for i in range(n)]
    fx = it.call(f, [as_array(xs)] + _extra(args, kwargs), {})
    fx = as_array(list(it.iterate(fx)))
    ok = it.fresh_bool("hybr_success")
    it.assume(Implies(ok, And(*[Eq(v, 0) for v in fx.reshape(-1)])))
    it.event(kind="root", site=it.callstack[-1] if it.callstack else "", x=xs, fun=fx, success=ok, x0=x0,
             method=kwargs.get("method"), options=kwargs.get("options"))
    return SymObj(None, None, attrs={"x": as_array(xs), "fun": fx, "success": ok, "message": "<message>"}, label="OptimizeResult")


EXTERNALS = {
    "scipy.optimize.root_scalar": root_scalar,
    "scipy.optimize.minimize_scalar": minimize_scalar,
    "scipy.optimize.root": root,
}
