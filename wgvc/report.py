"""Verdict classification, replay files, evidence, exit codes (DESIGN 2.5-2.7)."""
from __future__ import annotations

import json
import os
import re
import time

from .api import VERIF, OUT, EXIT_OK, EXIT_VIOLATION, EXIT_UNDECIDED, EXIT_FAULT, TRUSTED_BASE

KNOWN_FILE = os.path.join(VERIF, "KNOWN_FINDINGS.txt")


def load_known(prop: str):
    known, fixed = [], []
    if not os.path.exists(KNOWN_FILE):
        return known, fixed
    for line in open(KNOWN_FILE, encoding="utf-8"):
        line = line.strip()
        if not line or line.startswith("#"):
            continue
        m = re.match(r"known:\s+property=(\S+)\s+obligation=(\S+)\s+(.*)", line)
        if m and m.group(1) == prop:
            known.append({"obligation": m.group(2), "text": m.group(3)})
            continue
        m = re.match(r"fixed:\s+property=(\S+)\s+(.*)", line)
        if m and m.group(1) == prop:
            fixed.append(m.group(2))
    return known, fixed


def _vc_sample(vc, with_smt=False):
    d = {"obligation": vc.name, "function": vc.func, "kind": vc.kind, "verdict": vc.verdict,
         "backend": vc.backend, "seconds": round(vc.seconds, 4),
         "goal": str(vc.goal)[:400], "facts": [str(f)[:200] for f in vc.facts[:12]]}
    if with_smt:
        d["smt2"] = vc.smt2
    return d


def finish(chk, known_findings, min_obligations, extra_cov) -> int:
    prop = chk.prop
    known, fixed = load_known(prop)
    os.makedirs(os.path.join(OUT, "evidence"), exist_ok=True)
    os.makedirs(os.path.join(OUT, "replay"), exist_ok=True)

    obl = [v for v in chk.vcs if v.expect == "valid"]
    canaries = [v for v in chk.vcs if v.expect == "invalid"]
    reach = [v for v in chk.vcs if v.expect == "sat"]

    faults, undecided, failing = [], list(chk.undecided), []
    for v in chk.vcs:
        if v.verdict == "error":
            faults.append(f"{v.name}: {v.detail}")
    failing_funcs = {v.func for v in chk.vcs if v.expect == "valid" and v.verdict == "sat"}
    for v in canaries:
        if v.verdict == "unsat" and v.func in failing_funcs:
            chk.notes.append(f"canary {v.name} proved while an obligation of the same function fails (coincides with the changed code)")
        elif v.verdict == "unsat":
            faults.append(f"canary {v.name} was proved: the facts of this obligation are contradictory (vacuous proof)")
        elif v.verdict != "sat":
            chk.notes.append(f"canary {v.name} undecided ({v.detail})")
    for v in reach:
        if v.verdict == "unsat":
            faults.append(f"precondition/path of {v.name} is unreachable (vacuous)")
        elif v.verdict != "sat":
            chk.notes.append(f"reachability {v.name} undecided ({v.detail})")
    for v in obl:
        if v.verdict == "unsat":
            continue
        if v.verdict == "sat":
            failing.append(v)
        elif v.verdict != "error":
            undecided.append(f"{v.name}: {v.verdict} {v.detail}")
    if len(obl) < min_obligations:
        faults.append(f"only {len(obl)} obligations generated, committed minimum is {min_obligations}")
    if chk.crosscheck["disagreements"]:
        faults.append(f"interpreter/CPython cross-check disagreements: {chk.crosscheck['disagreements']}")

    import fnmatch
    known_hits, violations = [], []
    for v in failing:
        k = next((k for k in known if fnmatch.fnmatchcase(v.name, k["obligation"])), None)
        if k is not None:
            known_hits.append((v, k))
        else:
            violations.append(v)

    lines = []
    viol_records = []
    for v in violations:
        path = os.path.join(OUT, "replay", f"{v.name}.json")
        status, info = "not-executable", {}
        cross = next((c for c in getattr(chk, "crosses", []) if v.func.endswith(c.name)), None)
        if cross is not None and v.kind not in ("frame",):
            try:
                from .replay import replay_with_cross
                status, info = replay_with_cross(chk, v, cross)
            except Exception as exc:
                status, info = "not-executable", {"replay_error": repr(exc)}
        for prefix, rp in chk.replayers.items():
            if v.name.startswith(prefix):
                try:
                    status, info = rp(v)
                except Exception as exc:  # the replay harness failed; the obligation failure stands
                    status, info = "not-executable", {"replay_error": repr(exc)}
                break
        rec = {"property": prop, "obligation": v.name, "function": v.func, "kind": v.kind,
               "goal": str(v.goal), "facts": [str(f) for f in v.facts], "model": v.model,
               "backend": v.backend, "solver_output": "sat", "replay_status": status, "replay": info,
               "functions_sha1": chk.functions, "smt2": v.smt2}
        with open(path, "w", encoding="utf-8") as fh:
            json.dump(rec, fh, indent=1, default=str)
        viol_records.append(rec)
        if status == "not-reproduced":
            faults.append(f"{v.name}: counter-model not reproduced by the real code (native {info.get('native')}, summary {info.get('symbolic_result')})")
            continue
        tail = "" if status == "reproduced" else " no-failing-input-found"
        lines.append(f"VIOLATION property={prop} replay={path}{tail}")

    # an obligation left open by the solvers inside a known-finding family adds nothing to the finding
    for u in list(undecided):
        nm = u.split(":")[0]
        if any(fnmatch.fnmatchcase(nm, k["obligation"]) for k in known):
            undecided.remove(u)
            chk.notes.append(f"undecided member of a known-finding family: {u}")
    printed = set()
    for v, k in known_hits:
        if k["obligation"] in printed:
            continue
        printed.add(k["obligation"])
        n = sum(1 for _, kk in known_hits if kk is k)
        print(f"KNOWN-FINDING: property={prop} obligation={k['obligation']} ({n} failing obligations, e.g. {v.name}) {k['text']}")
    stale = [k for k in known if not any(k is kk for _, kk in known_hits)]
    for k in stale:
        chk.notes.append(f"known finding {k['obligation']} did not fire on this run")

    n_obl = len(obl) - len(known_hits)
    n_dis = sum(1 for v in obl if v.verdict == "unsat")
    backends: dict = {}
    for v in chk.vcs:
        if v.backend:
            stage = (v.detail or "").split(" ")[0]
            label = v.backend + ("/" + stage if stage in ("linear-abstraction", "small-facts-only", "without-congruence") else "")
            b = backends.setdefault(label, {"count": 0, "seconds": 0.0})
            b["count"] += 1
            b["seconds"] = round(b["seconds"] + v.seconds, 3)

    import random
    rnd = random.Random(chk.seed)
    pool = [v for v in obl if v.verdict == "unsat"]
    samples = [_vc_sample(v) for v in (rnd.sample(pool, min(4, len(pool))) if pool else [])]
    if pool:
        big = max(pool, key=lambda v: v.seconds)
        samples.append(_vc_sample(big, with_smt=len(big.smt2) < 6000))
    samples += [_vc_sample(v) for v in canaries[:2]]
    reach_models = [{"obligation": v.name, "model": dict(list(v.model.items())[:8])} for v in reach[:3] if v.verdict == "sat"]

    level = getattr(chk, "level", "proof")
    cov = {
        "obligations": n_obl,
        "discharged": n_dis,
        "checker_cmd": f"./check {prop} --tier {chk.tier}",
        "trusted_base": TRUSTED_BASE,
        "backends": backends,
        "solver_seconds": round(sum(v.seconds for v in chk.vcs), 3),
        "functions_under_contract": chk.functions,
        "paths_enumerated": chk.path_count,
        "inlined_helpers": sorted(chk.inlined),
        "dropped_constructs": sorted(chk.dropped),
        "canaries": {"total": len(canaries), "refuted_as_required": sum(1 for v in canaries if v.verdict == "sat")},
        "reachability": {"total": len(reach), "sat": sum(1 for v in reach if v.verdict == "sat"), "models": reach_models},
        "denominators_assumed_nonzero": sum(v.n_dens for v in obl),
        "obligations_by_kind": _by_kind(obl),
        "known_findings": [{"obligation": v.name, "text": k["text"]} for v, k in known_hits],
        "fixed_findings": fixed,
        "bounded": chk.bounded,
        "crosscheck": chk.crosscheck,
        "undecided": undecided,
        "notes": chk.notes,
        "samples": samples,
        "explanation": getattr(chk, "explanation", ""),
    }
    cov.update(extra_cov)
    ev = {
        "property_id": prop, "tier": chk.tier, "seed": chk.seed, "level": level,
        "coverage": cov, "assumptions": chk.assumptions, "wall_s": round(time.time() - chk.t0, 2),
        "violations": len(lines),
    }
    with open(os.path.join(OUT, "evidence", f"{prop}.json"), "w", encoding="utf-8") as fh:
        json.dump(ev, fh, indent=1, default=str)

    for ln in lines[:25]:
        print(ln)
    if len(lines) > 25:
        print(f"... and {len(lines) - 25} more failing obligations of {prop} (replay files written for all of them)")
    for f in faults:
        print(f"CHECKER-FAULT property={prop} {f}")
    for u in undecided:
        print(f"UNDECIDED property={prop} {u}")
    print(f"{prop}: obligations={n_obl} discharged={n_dis} known={len(known_hits)} violations={len(lines)} "
          f"undecided={len(undecided)} canaries={cov['canaries']['refuted_as_required']}/{len(canaries)} "
          f"paths={chk.path_count} wall={ev['wall_s']}s")
    if lines:
        return EXIT_VIOLATION
    if faults:
        return EXIT_FAULT
    if undecided:
        return EXIT_UNDECIDED
    return EXIT_OK


def _by_kind(vcs):
    d: dict = {}
    for v in vcs:
        d[v.kind] = d.get(v.kind, 0) + 1
    return d
