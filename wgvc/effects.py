"""Frame (effects) analysis on the real AST: which attributes of ``self`` can a method write, directly or through the
methods of the same object it calls, and which methods of collaborator objects (``self.<attr>.<method>(...)``) it invokes.
Conservative and name based: every ``self.m(...)`` is followed when ``m`` is a method of the class (or a base class inside the package)."""
from __future__ import annotations

import ast

from . import source


def frame_of(module: str, cls: str, method: str):
    stores, collab_calls, visited, unresolved = set(), set(), set(), set()

    def visit(mname):
        if mname in visited:
            return
        visited.add(mname)
        fi = source.find_method(module, cls, mname)
        if fi is None:
            unresolved.add(mname)
            return
        args = fi.node.args.posonlyargs + fi.node.args.args
        selfname = args[0].arg if args else "self"
        for n in ast.walk(fi.node):
            targets = []
            if isinstance(n, ast.Assign):
                targets = n.targets
            elif isinstance(n, (ast.AugAssign, ast.AnnAssign)):
                targets = [n.target]
            for t in targets:
                for sub in ast.walk(t):
                    if isinstance(sub, ast.Attribute) and isinstance(sub.ctx, ast.Store) and isinstance(sub.value, ast.Name) and sub.value.id == selfname:
                        stores.add(sub.attr)
                    if isinstance(sub, ast.Subscript) and isinstance(sub.ctx, ast.Store):
                        root = sub.value
                        while isinstance(root, ast.Subscript):
                            root = root.value
                        if isinstance(root, ast.Attribute) and isinstance(root.value, ast.Name) and root.value.id == selfname:
                            stores.add(root.attr + "[...]")
            if isinstance(n, ast.Call) and isinstance(n.func, ast.Attribute):
                f = n.func
                if isinstance(f.value, ast.Name) and f.value.id == selfname:
                    visit(f.attr)
                elif isinstance(f.value, ast.Attribute) and isinstance(f.value.value, ast.Name) and f.value.value.id == selfname:
                    collab_calls.add(f"{f.value.attr}.{f.attr}")
                elif (isinstance(f.value, ast.Attribute) and isinstance(f.value.value, ast.Attribute)
                      and isinstance(f.value.value.value, ast.Name) and f.value.value.value.id == selfname):
                    collab_calls.add(f"{f.value.value.attr}.{f.value.attr}.{f.attr}")
    visit(method)
    return {"stores": stores, "collaborator_calls": collab_calls, "methods": visited - unresolved, "unresolved": unresolved}
