"""Runs the REAL WallGo functions on concrete inputs (under /venv/bin/python).  Used for
  * the CPython cross-check of the symbolic interpreter (translation validation of wgvc), and
  * the replay of solver counter-models against the real code.
Input: JSON list of scenarios on stdin / file; output: JSON list of {"id", "ok", "result", "attrs", "error"}.
No verifier code is imported here (only numpy and WallGo)."""
import importlib
import json
import sys
import types
import warnings

import numpy as np

warnings.filterwarnings("ignore")


def make_function(spec, functions):
    kind = spec["kind"]
    if kind == "poly":
        terms = [(tuple(e), float(c)) for e, c in spec["terms"]]

        def f(*xs):
            xs = [np.asarray(x, dtype=float) for x in xs]
            out = 0.0
            for e, c in terms:
                t = c
                for x, k in zip(xs, e):
                    t = t * x**k
                out = out + t
            return out
        return f
    if kind == "table":
        entries = [([float(a) for a in args], float(v)) for args, v in spec["entries"]]
        default = float(spec.get("default", 0.0))

        def f(*xs):
            xs = [float(np.asarray(x).reshape(-1)[0]) if np.size(x) == 1 else x for x in xs]
            for args, v in entries:
                if len(args) == len(xs) and all(abs(a - x) <= 1e-9 * max(1.0, abs(a)) for a, x in zip(args, xs)):
                    return v
            return default
        return f
    raise ValueError(kind)


class Value:
    def __init__(self, **kw):
        self.__dict__.update(kw)


def build(spec, fns):
    """JSON description -> python object"""
    if isinstance(spec, dict) and "__stub__" in spec:
        k = spec["__stub__"]
        if k == "namespace":
            return types.SimpleNamespace(**{a: build(v, fns) for a, v in spec.get("attrs", {}).items()})
        if k == "array":
            return np.array(spec["data"], dtype=float)
        if k == "freeenergy":
            f, df, ddf = fns[spec["f"]], fns[spec["df"]], fns[spec["ddf"]]

            class FE:
                minPossibleTemperature = spec.get("min", [0.0, False])
                maxPossibleTemperature = spec.get("max", [1e9, False])

                def __call__(self, T):
                    return Value(veffValue=f(T), fieldsAtMinimum=None)

                def derivative(self, T, order=1):
                    return Value(veffValue=(df if order == 1 else ddf)(T), fieldsAtMinimum=None)
            return FE()
        if k == "object":
            # an object whose methods return spec functions of their arguments
            ns = types.SimpleNamespace(**{a: build(v, fns) for a, v in spec.get("attrs", {}).items()})
            for m, fname in spec.get("methods", {}).items():
                if fname not in fns:
                    continue
                setattr(ns, m, (lambda fn: (lambda *a, **kw: fn(*[np.asarray(x, dtype=float) for x in flatten_args(a)])))(fns[fname]))
            return ns
        if k == "callable":
            fn = fns[spec["fn"]]
            if spec.get("rowwise"):
                return lambda pos, *a: np.array([fn(*row) for row in np.asarray(pos, dtype=float).reshape(-1, np.asarray(pos).shape[-1])]).reshape(np.asarray(pos).shape[:-1])
            return lambda pos, *a: fn(np.asarray(pos, dtype=float))
        if k == "const_callable":
            val = build(spec["value"], fns)
            return lambda *a, **kw: val
        if k == "real":
            mod = importlib.import_module(spec["module"])
            cls = getattr(mod, spec["class"])
            if "init" in spec:
                return cls(*[build(a, fns) for a in spec["init"].get("args", [])], **{a: build(v, fns) for a, v in spec["init"].get("kwargs", {}).items()})
            obj = cls.__new__(cls)
            for a, v in spec.get("attrs", {}).items():
                setattr(obj, a, build(v, fns))
            return obj
        raise ValueError(k)
    if isinstance(spec, list):
        return [build(x, fns) for x in spec]
    if isinstance(spec, dict):
        return {k: build(v, fns) for k, v in spec.items()}
    return spec


def flatten_args(a):
    """fields arrays are passed as one argument: (fields, T) -> (phi0, phi1, T)"""
    out = []
    for x in a:
        arr = np.asarray(x, dtype=float) if not np.isscalar(x) else x
        if isinstance(arr, np.ndarray) and arr.ndim >= 1 and arr.shape[-1] > 1 and arr.size <= 4:
            out.extend(list(arr.reshape(-1)))
        else:
            out.append(x)
    return out


def to_json(v):
    if isinstance(v, (tuple, list)):
        return [to_json(x) for x in v]
    if isinstance(v, np.ndarray):
        return v.astype(float).tolist()
    if isinstance(v, (np.floating, np.integer)):
        return float(v)
    if isinstance(v, (int, float, bool)) or v is None:
        return v
    if hasattr(v, "__dict__"):
        return {k: to_json(x) for k, x in v.__dict__.items() if not k.startswith("_")}
    return str(v)


def run(sc):
    fns = {}
    for name, spec in sc.get("functions", {}).items():
        fns[name] = make_function(spec, fns)
    mod = importlib.import_module(sc["module"])
    args = [build(a, fns) for a in sc.get("args", [])]
    kwargs = {k: build(v, fns) for k, v in sc.get("kwargs", {}).items()}
    obj = None
    if sc.get("self") is not None:
        obj = build(sc["self"], fns)
        fn = getattr(obj, sc["method"])
    elif sc.get("class"):
        fn = getattr(getattr(mod, sc["class"]), sc["method"])
    else:
        fn = getattr(mod, sc["method"])
    res = fn(*args, **kwargs)
    attrs = {a: to_json(getattr(obj, a)) for a in sc.get("read_attrs", [])} if obj is not None else {}
    return to_json(res), attrs


def main():
    data = json.load(open(sys.argv[1])) if len(sys.argv) > 1 else json.load(sys.stdin)
    out = []
    for sc in data:
        try:
            res, attrs = run(sc)
            out.append({"id": sc["id"], "ok": True, "result": res, "attrs": attrs})
        except Exception as exc:      # the real code raised: that is a result too
            out.append({"id": sc["id"], "ok": False, "error": f"{type(exc).__name__}: {exc}", "exception": type(exc).__name__})
    json.dump(out, sys.stdout)


if __name__ == "__main__":
    main()
