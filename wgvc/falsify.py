"""Numeric search for a counter-model of a closed-form obligation (no uninterpreted applications).

The solver pipeline is good at *proving* the closed-form lemmas (Jacobian = derivative of the map, stencil exactness, ...), but when the
code is changed so that such a lemma becomes false, the refutation needs a model of a formula with nested square roots / hyperbolic
functions, and nlsat can take minutes or give up.  This stage samples rational points, evaluates facts and goal with 60-digit arithmetic
and three-valued comparisons (true / false / too close to call), and hands the first point where every fact is certainly true and the goal
certainly false back to z3 *as pins on the input constants*: the verdict `sat` is only reported when z3 confirms it on the very query the
proof is made on (smt._try_hint), so this stage can never create a violation the solver does not certify.
"""
from __future__ import annotations

import random
import time
from fractions import Fraction

import mpmath
import sympy as sp

MARGIN = mpmath.mpf(10) ** -25


class Reject(Exception):
    pass


def _has_apps(e) -> bool:
    from .sym import _TRANSC
    for f in e.atoms(sp.Function):
        if type(f) in _TRANSC or isinstance(f, (sp.Abs, sp.Min, sp.Max, sp.Piecewise, sp.sign)):
            continue
        return True
    return False


def _num(e, env):
    if isinstance(e, sp.Rational):
        return mpmath.mpf(e.p) / mpmath.mpf(e.q)
    if isinstance(e, sp.Number):
        return mpmath.mpf(str(e))
    if e is sp.pi:
        return mpmath.pi
    if isinstance(e, sp.Symbol):
        v = env[e.name]
        if isinstance(v, bool):
            raise Reject("boolean in arithmetic")
        return v
    if isinstance(e, sp.Add):
        return mpmath.fsum(_num(a, env) for a in e.args)
    if isinstance(e, sp.Mul):
        r = mpmath.mpf(1)
        for a in e.args:
            r = r * _num(a, env)
        return r
    if isinstance(e, sp.Pow):
        b, x = _num(e.base, env), _num(e.exp, env)
        if b == 0 and x <= 0:
            raise Reject("0**negative")
        if b < 0 and x != int(x):
            raise Reject("negative base")
        if b < 0:
            return b ** int(x)
        return mpmath.power(b, x)
    if isinstance(e, sp.Abs):
        return abs(_num(e.args[0], env))
    if isinstance(e, sp.Max):
        return max(_num(a, env) for a in e.args)
    if isinstance(e, sp.Min):
        return min(_num(a, env) for a in e.args)
    if isinstance(e, sp.Piecewise):
        for val, cond in e.args:
            t = _tri(cond, env)
            if t is None:
                raise Reject("piecewise condition too close to call")
            if t:
                return _num(val, env)
        raise Reject("piecewise without a true branch")
    if isinstance(e, sp.Function):
        x = _num(e.args[0], env)
        name = type(e).__name__
        if name == "atanh":           # Re artanh (the code takes .real of the complex value)
            if x == 1 or x == -1:
                raise Reject("artanh at +-1")
            return mpmath.log(abs((1 + x) / (1 - x))) / 2
        if name == "log":
            if x <= 0:
                raise Reject("log of non-positive")
            return mpmath.log(x)
        if name == "sqrt":
            if x < 0:
                raise Reject("sqrt of negative")
            return mpmath.sqrt(x)
        fn = getattr(mpmath, name, None)
        if fn is None:
            raise Reject(f"function {name}")
        return fn(x)
    raise Reject(f"term {type(e).__name__}")


def _tri(b, env):
    """True / False when certain, None when too close to call"""
    if b is sp.true or b is True:
        return True
    if b is sp.false or b is False:
        return False
    if isinstance(b, sp.And):
        vals = [_tri(a, env) for a in b.args]
        if any(v is False for v in vals):
            return False
        return True if all(v is True for v in vals) else None
    if isinstance(b, sp.Or):
        vals = [_tri(a, env) for a in b.args]
        if any(v is True for v in vals):
            return True
        return False if all(v is False for v in vals) else None
    if isinstance(b, sp.Not):
        v = _tri(b.args[0], env)
        return None if v is None else (not v)
    if isinstance(b, sp.Implies):
        return _tri(sp.Or(sp.Not(b.args[0]), b.args[1]), env)
    if isinstance(b, sp.Equivalent):
        vals = [_tri(a, env) for a in b.args]
        if any(v is None for v in vals):
            return None
        return all(v == vals[0] for v in vals)
    if isinstance(b, sp.ITE):
        c = _tri(b.args[0], env)
        if c is None:
            return None
        return _tri(b.args[1] if c else b.args[2], env)
    if isinstance(b, sp.Symbol):
        v = env[b.name]
        if not isinstance(v, bool):
            raise Reject("real used as boolean")
        return v
    if isinstance(b, sp.core.relational.Relational):
        lhs, rhs = _num(b.args[0], env), _num(b.args[1], env)
        d = lhs - rhs
        tol = MARGIN * max(1, abs(lhs), abs(rhs))
        far = abs(d) > tol
        if isinstance(b, sp.Eq):
            return False if far else None
        if isinstance(b, sp.Ne):
            return True if far else None
        if not far:
            return None
        if isinstance(b, (sp.Lt, sp.Le)):
            return d < 0
        if isinstance(b, (sp.Gt, sp.Ge)):
            return d > 0
    raise Reject(f"formula {type(b).__name__}")


def _draw(rnd, s: sp.Symbol):
    if s.name.startswith("?"):
        return rnd.random() < 0.5
    if s.is_integer:
        return rnd.choice([0, 1, 2, 3, 4, 5, 7, 10, -1, -2])
    k = rnd.random()
    if k < 0.35:
        q = Fraction(rnd.randint(1, 99), 100)
    elif k < 0.6:
        q = Fraction(rnd.randint(-30, 30), 10)
    elif k < 0.8:
        q = Fraction(rnd.randint(1, 60), 10)
    elif k < 0.9:
        q = Fraction(rnd.choice([1, 2, 5]), rnd.choice([1000, 100, 10]))
    else:
        q = Fraction(rnd.choice([10, 20, 50, 100, 300]), 1)
    return q


def search(facts, goal, seed: int, budget_s: float = 6.0, hint: dict | None = None):
    """-> dict symbol name -> Fraction|bool|int of a point where all facts certainly hold and the goal certainly fails, or None"""
    mpmath.mp.dps = 60
    facts = [sp.sympify(f) for f in facts]
    goal = sp.sympify(goal)
    if any(_has_apps(f) for f in facts + [goal] if isinstance(f, sp.Basic)):
        return None
    syms = sorted(set().union(*[f.free_symbols for f in facts + [goal] if isinstance(f, sp.Basic)]), key=lambda s: s.name)
    if not syms or len(syms) > 40:
        return None
    # definitional equalities  sym == expr  are solved instead of sampled
    defs = {}
    rest = []
    for f in facts:
        if isinstance(f, sp.Eq):
            a, b = f.args
            if isinstance(a, sp.Symbol) and a.name not in defs and a not in b.free_symbols:
                defs[a.name] = b
                continue
            if isinstance(b, sp.Symbol) and b.name not in defs and b not in a.free_symbols:
                defs[b.name] = a
                continue
        rest.append(f)
    rnd = random.Random(seed)
    t0 = time.time()
    tried = 0
    while time.time() - t0 < budget_s:
        tried += 1
        raw = {}
        for s in syms:
            if s.name in defs:
                continue
            raw[s.name] = (hint or {}).get(s.name) if (hint and s.name in hint and rnd.random() < 0.7) else _draw(rnd, s)
        env = {k: (v if isinstance(v, bool) else (mpmath.mpf(v.numerator) / mpmath.mpf(v.denominator) if isinstance(v, Fraction) else mpmath.mpf(v)))
               for k, v in raw.items()}
        try:
            pending = dict(defs)
            for _ in range(len(pending) + 1):
                for k in list(pending):
                    if all(x.name in env for x in pending[k].free_symbols):
                        env[k] = _num(pending.pop(k), env)
            if pending:
                return None
            if not all(_tri(f, env) is True for f in rest):
                continue
            if _tri(goal, env) is False:
                return {k: v for k, v in raw.items()}
        except (Reject, ZeroDivisionError, ValueError, OverflowError, TypeError):
            continue
    return None
