"""Replay of solver counter-models against the real code (DESIGN 2.6).

A counter-model assigns values to the input symbols and to the applications of uninterpreted functions.  When the failing
obligation belongs to a function that has a CPython cross-check specification, the real function is executed natively at the
model's inputs with collaborators that return exactly the model's values; the replay is *reproduced* when
  (1) the real function returns what the symbolic summary predicts at that input, and
  (2) the obligation's goal is false there.
"""
from __future__ import annotations

import json
import math
import os
import subprocess
import sys
import tempfile
from fractions import Fraction

import sympy as sp

from . import sym
from .api import VERIF
from .crosscheck import NATIVE_PY, flatten


def parse_value(s: str):
    s = s.strip()
    if s in ("True", "False"):
        return s == "True"
    t = s.replace("?", "").replace("(", " ").replace(")", " ").split()
    try:
        if len(t) == 1:
            return float(Fraction(t[0]))
        if len(t) == 2 and t[0] == "-":
            return -float(Fraction(t[1]))
        if len(t) == 3 and t[0] == "/":
            return float(Fraction(t[1])) / float(Fraction(t[2]))
    except (ValueError, ZeroDivisionError):
        return None
    return None


def model_env(vc):
    raw = vc.meta.get("raw_model", {})
    apps = vc.meta.get("app_terms", {})
    env, tables = {}, {}
    back = {}
    from .sym import smt_name
    for f in list(vc.facts) + [vc.goal]:
        for s_ in sym.to_sym(f).free_symbols:
            back[smt_name(s_.name)] = s_.name
    for k, v in raw.items():
        if k in apps or k.startswith(("sqrt!", "pw!", "app.")):
            continue
        val = parse_value(v)
        if val is not None and k in back:
            env[back[k]] = val
    # applications, innermost first
    pending = sorted(apps.items(), key=lambda kv: sp.count_ops(kv[1]))

    def funcs():
        out = {}
        for name, entries in tables.items():
            def f(*a, _e=entries):
                for args, val in _e:
                    if len(args) == len(a) and all(abs(x - y) <= 1e-9 * max(1.0, abs(x)) for x, y in zip(args, a)):
                        return val
                return 0.0
            out[name] = f
        return out
    for const, app in pending:
        val = parse_value(raw.get(const, "0"))
        if val is None or isinstance(val, bool):
            continue
        try:
            args = [float(sym.num_eval(a, _DefaultEnv(env), _DefaultFuncs(funcs()))) for a in app.args]
        except Exception:
            continue
        tables.setdefault(type(app).__name__, []).append((args, float(val)))
    return env, tables, funcs()


class _DefaultEnv(dict):
    def __missing__(self, k):
        return 1.0


class _DefaultFuncs(dict):
    def __missing__(self, k):
        return lambda *a: 0.0


def replay_with_cross(chk, vc, cross):
    env, tables, funcs = model_env(vc)
    env = _DefaultEnv(env)
    funcs = _DefaultFuncs(funcs)
    goal_value = None
    try:
        goal_value = bool(sym.bool_eval(vc.goal, env, funcs))
    except Exception as exc:
        return "not-executable", {"reason": f"goal not evaluable at the model: {exc!r}"}
    chosen = None
    for p in cross.paths:
        if p.outcome != "return":
            continue
        try:
            if all(sym.bool_eval(c, env, funcs) for c in p.pc):
                chosen = p
                break
        except Exception:
            continue
    if chosen is None:
        return "not-executable", {"reason": "no path of the function summary matches the model", "inputs": dict(env)}
    try:
        want = [float(sym.num_eval(x, env, funcs)) for x in flatten(cross.result(chosen)) if isinstance(x, (sp.Basic, int, float))]
    except Exception as exc:
        return "not-executable", {"reason": f"summary not evaluable at the model: {exc!r}"}
    sc = cross.scenario(env)
    sc["id"] = vc.name
    sc["functions"] = {name: {"kind": "table", "entries": [[a, v] for a, v in ent], "default": 0.0} for name, ent in tables.items()}
    # functions the stubs expect but the model does not mention
    for need in _needed_functions(sc):
        sc["functions"].setdefault(need, {"kind": "table", "entries": [], "default": 0.0})
    res = run_native([sc])
    if res is None:
        return "not-executable", {"reason": "native runner failed", "scenario": sc}
    r = res[0]
    info = {"inputs": {k: v for k, v in env.items()}, "function_values": {k: v for k, v in tables.items()}, "scenario": sc,
            "symbolic_result": want, "native": r, "goal_at_model": goal_value}
    if not r["ok"]:
        return "not-executable", info
    got = [float(x) for x in flatten(r["result"]) if isinstance(x, (int, float))]
    agree = len(got) == len(want) and all(abs(a - b) <= 1e-7 * max(1.0, abs(a), abs(b)) for a, b in zip(got, want))
    info["native_agrees_with_summary"] = agree
    if agree and goal_value is False:
        return "reproduced", info
    if not agree:
        return "not-reproduced", info
    return "not-executable", info


def _needed_functions(sc):
    out = []

    def rec(x):
        if isinstance(x, dict):
            if x.get("__stub__") == "freeenergy":
                out.extend([x["f"], x["df"], x["ddf"]])
            if x.get("__stub__") == "object":
                out.extend(x.get("methods", {}).values())
            if x.get("__stub__") == "callable":
                out.append(x["fn"])
            for v in x.values():
                rec(v)
        elif isinstance(x, list):
            for v in x:
                rec(v)
    rec(sc)
    return out


def run_native(scenarios):
    with tempfile.NamedTemporaryFile("w", suffix=".json", delete=False) as fh:
        json.dump(scenarios, fh, default=float)
        path = fh.name
    try:
        out = subprocess.run([NATIVE_PY, os.path.join(VERIF, "wgvc", "native_runner.py"), path], capture_output=True, text=True, timeout=600,
                             env={**os.environ, "PYTHONPATH": os.path.join(os.environ.get("WGVC_REPO", "/repo"), "src")})
        return json.loads(out.stdout[out.stdout.index("["):])
    except Exception:
        return None
    finally:
        os.unlink(path)


def main(path: str) -> int:
    """./check <prop> --replay <file>: print the stored record and re-execute its native scenario against the current tree"""
    rec = json.load(open(path))
    print(f"obligation {rec['obligation']} of {rec['property']} (function {rec.get('function')})")
    print(f"goal: {rec['goal'][:400]}")
    print(f"replay status when found: {rec.get('replay_status')}")
    sc = (rec.get("replay") or {}).get("scenario")
    if not sc:
        print("no native scenario stored (the obligation is path-level/structural): model and SMT-LIB text are in the file")
        return 0
    res = run_native([sc])
    print("native re-execution:", json.dumps(res, indent=1)[:2000])
    want = (rec.get("replay") or {}).get("symbolic_result")
    if res and res[0].get("ok") and want is not None:
        got = [float(x) for x in flatten(res[0]["result"]) if isinstance(x, (int, float))]
        same = len(got) == len(want) and all(abs(a - b) <= 1e-7 * max(1.0, abs(a), abs(b)) for a, b in zip(got, want))
        print("the real code still returns the value recorded with the violation" if same else "the real code now returns a different value")
        return 1 if same else 0
    return 0
