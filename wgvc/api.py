"""What a contract file uses: the check context, summaries of real functions, obligations."""
from __future__ import annotations

import json
import os
import sys
import time
import traceback

import sympy as sp

from . import source, sym, smt
from .interp import (Interp, enumerate_paths, Path, BlockSpec, Stale, Native, SymObj, Closure, PyExc, Undecided, Env, BoundMethod,
                     ClassRef, EnumVal, External, Opaque, PathEnd, Infeasible)
from .smt import VC
from .sym import real, integer, boolean, specfun, Eq, Ne, And, Or, Not, Implies, Lt, Le, Gt, Ge, R  # noqa: F401

VERIF = os.path.dirname(os.path.dirname(os.path.abspath(__file__)))
OUT = os.environ.get("WGVC_OUT", VERIF)   # evidence/ and replay/ are written here (scratch runs redirect it)

EXIT_OK, EXIT_VIOLATION, EXIT_UNDECIDED, EXIT_FAULT = 0, 1, 2, 3

TRUSTED_BASE = [
    "wgvc (AST interpreter over the real source, sympy term normalisation and differentiation, SMT encoding in wgvc/sym.py)",
    "numpy structural semantics on object arrays (the library itself, not a model)",
    "z3 5.1.0 (python API); cvc5 1.0.3 and z3 4.8.12 on unknown / as second opinion in the thorough tier",
    "python ast module; IEEE doubles read as the real field, int64 as Z",
]


class CheckFault(Exception):
    """The checker itself is at fault (vacuity guard, canary, engine cross-check)."""


class Check:
    def __init__(self, prop: str, tier: str = "quick", seed: int = 0):
        self.prop = prop
        self.tier = tier
        self.seed = seed
        self.vcs: list[VC] = []
        self.functions: dict = {}       # "module.qualname" -> sha1
        self.inlined: set = set()
        self.dropped: set = set()
        self.assumptions: list = []
        self.bounded: list = []         # dicts describing bounded stand-ins (never counted as proved)
        self.notes: list = []
        self.undecided: list = []
        self.path_count = 0
        self.crosscheck = {"points": 0, "functions": 0, "disagreements": 0}
        self.t0 = time.time()
        self._names: set = set()
        self.replayers: dict = {}        # obligation-name prefix -> callable(vc) -> (status, info)
        self.crosses: list = []          # CPython cross-check specifications (wgvc.crosscheck.Cross)

    # ---- bookkeeping
    def assume_note(self, text: str):
        if text not in self.assumptions:
            self.assumptions.append(text)

    def under_contract(self, module: str, qualname: str):
        fi = source.get_function(module, qualname)
        self.functions[f"{module}.{qualname}"] = fi.sha1
        return fi

    def vc(self, name, facts, goal, func="", kind="post", expect="valid", meta=None):
        full = f"{self.prop}.{name}"
        if full in self._names:
            raise CheckFault(f"duplicate obligation {full}")
        self._names.add(full)
        v = VC(full, [sym.to_sym(f) for f in facts], sym.to_sym(goal) if goal is not None else sp.true,
               expect=expect, func=func, kind=kind, meta=meta or {})
        self.vcs.append(v)
        return v

    def canary(self, name, facts, goal, func=""):
        """A deliberately false goal: must come back sat, otherwise the facts are vacuous."""
        return self.vc(name + ".canary", facts, goal, func=func, kind="canary", expect="invalid")

    def reach(self, name, facts, func=""):
        return self.vc(name + ".reach", facts, None, func=func, kind="reach", expect="sat")

    # ---- summaries of real functions
    def summarize(self, module, qualname, make, registry=None, externals=None, loop_specs=None,
                  config=None, record=True, allow_cut=False, block_specs=None):
        """Enumerate the paths of the real function.  ``make(it)`` returns (self_obj|None, args, kwargs, state)."""
        fi = self.under_contract(module, qualname) if record else source.get_function(module, qualname)

        def run(it: Interp):
            self_obj, args, kwargs, state = make(it)
            it.state = state
            node = fi.node
            decos = [sym_unparse(d) for d in getattr(node, "decorator_list", [])]
            clo = Closure(node, it.module_env(module), module, qualname,
                          self_obj=None if "staticmethod" in decos else self_obj)
            val = it.call_closure(clo, list(args), dict(kwargs))
            return val, state

        paths = enumerate_paths(run, registry=registry, externals=externals, loop_specs=loop_specs, config=config,
                                block_specs=block_specs)
        for p in paths:
            self.inlined |= p.inlined
            self.dropped |= p.dropped
            for a in p.assumed:
                self.assume_note("assumed contract: " + a)
            if p.outcome == "cut" and not allow_cut:
                raise Undecided(f"{qualname}: {p.value}")
        # obligations emitted inside the run (loop invariants, callee preconditions, stub preconditions)
        short = qualname.split(".", 1)[-1]
        for i, p in enumerate(paths):
            seen: dict = {}
            for (name, facts, goal, kind) in p.obligs:
                k = seen.get(name, 0)
                seen[name] = k + 1
                nm = f"{short}.{name}.path{i}" + (f".{k}" if k else "")
                j = 1
                while f"{self.prop}.{nm}" in self._names:     # the same function summarised again from another pre-state
                    j += 1
                    nm = f"{short}.{name}.pre{j}.path{i}" + (f".{k}" if k else "")
                self.vc(nm, facts, goal, func=f"{module}.{qualname}", kind=kind)
        self.path_count += len(paths)
        return paths

    def summarize_closure(self, module, outer_qualname, inner_name, make_env, args_make, registry=None,
                          externals=None, config=None):
        """Paths of a nested function of the real source, run in an environment of captured variables."""
        q = f"{outer_qualname}.<{inner_name}>"
        fi = self.under_contract(module, q)

        def run(it: Interp):
            captured, state = make_env(it)
            it.state = state
            env = Env(parent=it.module_env(module), module=module)
            # names of the enclosing function (parameters and assigned locals) that the contract does not pin down are arbitrary values
            import ast
            outer = source.get_function(module, outer_qualname).node
            names = [a.arg for a in outer.args.posonlyargs + outer.args.args + outer.args.kwonlyargs]
            for st in ast.walk(outer):
                if st is fi.node:
                    continue
                if isinstance(st, ast.Name) and isinstance(st.ctx, ast.Store):
                    names.append(st.id)
            inner_locals = {n.id for n in ast.walk(fi.node) if isinstance(n, ast.Name) and isinstance(n.ctx, ast.Store)}
            inner_locals |= {a.arg for a in fi.node.args.posonlyargs + fi.node.args.args + fi.node.args.kwonlyargs}
            used = {n.id for n in ast.walk(fi.node) if isinstance(n, ast.Name) and isinstance(n.ctx, ast.Load)} - inner_locals
            for nm in names:
                if nm in used and nm not in captured:
                    env.vars[nm] = sym.real(f"captured.{nm}")
            env.vars.update(captured)
            clo = Closure(fi.node, env, module, q)
            args, kwargs = args_make(it, captured)
            return it.call_closure(clo, list(args), dict(kwargs)), state

        paths = enumerate_paths(run, registry=registry, externals=externals, config=config)
        for p in paths:
            self.inlined |= p.inlined
            self.dropped |= p.dropped
            for a in p.assumed:
                self.assume_note("assumed contract: " + a)
        self.path_count += len(paths)
        return paths

    # ---- discharge and report
    def cross(self, c):
        self.crosses.append(c)

    def run(self):
        second = self.tier == "thorough"
        smt.discharge(self.vcs, second_opinion=second)
        if self.crosses and not os.environ.get("WGVC_NO_CROSSCHECK"):
            from .crosscheck import run_crosses
            run_crosses(self, self.crosses, 200 if self.tier == "thorough" else 20)

    def finish(self, known_findings: list, min_obligations: int = 1, extra_cov: dict | None = None) -> int:
        from . import report
        return report.finish(self, known_findings, min_obligations, extra_cov or {})


def sym_unparse(node):
    import ast
    return ast.unparse(node)


# --------------------------------------------------------------------------- helpers for contracts
def pure_call(fn, facts=None):
    """Registry entry: the call returns the spec-function application ``fn(self, *args)`` and the
    caller may assume ``facts(self, args, result)`` (the callee's proved postconditions)."""
    def h(it, self_obj, args, kwargs):
        if kwargs:
            args = list(args) + list(kwargs.values())
        r = fn(self_obj, *args)
        it.event(kind="contract-call", result=r, args=list(args))
        if facts is not None:
            for f in facts(self_obj, list(args), r):
                it.assume(f)
        return r
    return h


def path_cond(p: Path):
    return list(p.pc)


def subs(e, mapping):
    if isinstance(e, (list, tuple)):
        return type(e)(subs(x, mapping) for x in e)
    if isinstance(e, sp.Basic):
        return e.xreplace(mapping) if all(isinstance(k, sp.Symbol) for k in mapping) else e.subs(mapping)
    return e


def deriv(e, x):
    """Symbolic derivative of a term (sympy.diff; declared derivatives of spec functions via fdiff)."""
    d = sp.diff(sym.to_sym(e), x)
    if d.has(sp.Derivative) or d.has(sp.Subs):
        raise sym.EncodeError(f"derivative not expressible: {d}")
    return d


def sel(paths, outcome="return"):
    return [p for p in paths if p.outcome == outcome]


def loop_spec(invariant, havoc):
    """Loop contract (DESIGN 2.1): ``invariant(it, env)`` -> list of formulas over the current values of the
    loop variables; ``havoc`` maps every name assigned in the loop to a factory of a fresh value.
    Generates: invariant on entry; invariant preserved by one arbitrary iteration; continues after the loop
    from invariant and not guard.  Termination is not proved."""
    import ast as _ast

    def spec(it, st, env, clo):
        assigned = {n.id for b in st.body for n in _ast.walk(b) if isinstance(n, _ast.Name) and isinstance(n.ctx, _ast.Store)}
        missing = assigned - set(havoc)
        if missing:
            raise Undecided(f"loop contract of {clo.qualname}: names {sorted(missing)} are assigned in the loop but not havocked")
        for b in st.body:
            for n in _ast.walk(b):
                if isinstance(n, _ast.Attribute) and isinstance(n.ctx, _ast.Store):
                    raise Undecided(f"loop contract of {clo.qualname}: loop stores to attribute {_ast.unparse(n)}")
        for k, f in enumerate(invariant(it, env)):
            it.oblige(f"loop-invariant.entry.{k}", f, kind="inv")
        for name, fac in havoc.items():
            env.vars[name] = fac(it)
        for f in invariant(it, env):
            it.assume(f)
        if it.decide_free():
            if not it.truth(it.eval(st.test, env)):
                raise PathEnd()
            from .interp import _Break
            try:
                it.exec_block(st.body, env, clo)
            except _Break:
                # an arbitrary iteration leaves the loop: execution continues after it with the state reached here
                it.event(kind="loop-exit", where=clo.qualname, via="break")
                return
            for k, f in enumerate(invariant(it, env)):
                it.oblige(f"loop-invariant.preserved.{k}", f, kind="inv")
            raise PathEnd()
        if it.truth(it.eval(st.test, env)):
            raise PathEnd()
        it.event(kind="loop-exit", where=clo.qualname)
    return spec
