"""Semantics of Python operators and builtins on the interpreter's values."""
from __future__ import annotations

import ast

import numpy as np
import sympy as sp
from sympy.logic.boolalg import Boolean, BooleanTrue, BooleanFalse

from . import sym
from .interp import (Undecided, PyExc, SymObj, Closure, BoundMethod, External, ClassRef, EnumVal,
                     ExcClass, PyBuiltin, Opaque, Stale, _toint)


def is_sym(v):
    return isinstance(v, sp.Basic)


def is_bool_sym(v):
    if isinstance(v, sp.Symbol):          # sympy Symbols are Boolean instances too: tell them apart by name
        return v.name.startswith("?")
    return isinstance(v, Boolean)


def is_num(v):
    return isinstance(v, (int, float, sp.Basic, np.integer, np.floating)) and not isinstance(v, (bool,)) and not is_bool_sym(v)


def norm(v):
    """numpy scalars -> python / sympy scalars."""
    if isinstance(v, np.integer):
        return int(v)
    if isinstance(v, np.floating):
        return sym.to_sym(float(v))
    if isinstance(v, np.bool_):
        return bool(v)
    if isinstance(v, float):
        return sym.to_sym(v)
    if isinstance(v, sp.Integer):
        return int(v)
    if isinstance(v, np.ndarray) and v.ndim == 0 and v.dtype == object:
        return v.item()
    return v


def as_array(v):
    if isinstance(v, np.ndarray):
        return v
    if isinstance(v, (list, tuple)):
        out = np.empty(_shape_of(v), dtype=object)
        _fill(out, v, ())
        return out
    a = np.empty((), dtype=object)
    a[()] = v
    return a


def _shape_of(v):
    if isinstance(v, np.ndarray):
        return v.shape
    if isinstance(v, (list, tuple)):
        if len(v) == 0:
            return (0,)
        sub = [_shape_of(x) for x in v]
        if any(s != sub[0] for s in sub):
            raise PyExc("ValueError", ("inhomogeneous shape",))
        return (len(v),) + sub[0]
    return ()


def _fill(out, v, idx):
    if isinstance(v, np.ndarray):
        out[idx] = v
        return
    if isinstance(v, (list, tuple)):
        for i, x in enumerate(v):
            _fill(out, x, idx + (i,))
        return
    out[idx] = norm(v)


def elementwise(f, *xs):
    if any(isinstance(x, (np.ndarray, list, tuple)) for x in xs):
        arrs = [as_array(x) for x in xs]
        uf = np.frompyfunc(lambda *a: f(*[norm(t) for t in a]), len(xs), 1)
        res = uf(*arrs)
        if not isinstance(res, np.ndarray):
            a = np.empty((), dtype=object)
            a[()] = res
            return a
        return res
    return f(*[norm(x) for x in xs])


# --------------------------------------------------------------------------- operators
def _scalar_binop(it, op, a, b):
    import pathlib
    if isinstance(a, pathlib.PurePath) and isinstance(op, ast.Div) and isinstance(b, (str, pathlib.PurePath)):
        return a / b
    a, b = norm(a), norm(b)
    if isinstance(a, str) or isinstance(b, str):
        if isinstance(op, ast.Add):
            return str(a) + str(b)
        if isinstance(op, ast.Mod):
            return "<fmt>"
        if isinstance(op, ast.Mult):
            return a * b
        raise Undecided("string operator")
    if isinstance(a, bool):
        a = int(a)
    if isinstance(b, bool):
        b = int(b)
    if not isinstance(op, (ast.BitAnd, ast.BitOr, ast.BitXor)):
        # a symbolic truth value used as a number (numpy: True == 1): decided per path
        if is_sym(a) and is_bool_sym(a):
            a = 1 if it.truth(a) else 0
        if is_sym(b) and is_bool_sym(b):
            b = 1 if it.truth(b) else 0
    if a is None or b is None:
        raise PyExc("TypeError", ("unsupported operand None",))
    both_int = isinstance(a, int) and isinstance(b, int)
    if isinstance(op, ast.Add):
        return norm(a + b)
    if isinstance(op, ast.Sub):
        return norm(a - b)
    if isinstance(op, ast.Mult):
        return norm(a * b)
    if isinstance(op, ast.Div):
        if (isinstance(b, int) and b == 0) or (is_sym(b) and b.is_zero):
            raise PyExc("ZeroDivisionError", ())
        if both_int:
            return norm(sp.Rational(a, b))
        return norm(sym.to_sym(a) / sym.to_sym(b))
    if isinstance(op, ast.FloorDiv):
        if both_int:
            if b == 0:
                raise PyExc("ZeroDivisionError", ())
            return a // b
        return norm(sp.floor(sym.to_sym(a) / sym.to_sym(b)))
    if isinstance(op, ast.Mod):
        if both_int:
            return a % b
        return norm(sp.Mod(sym.to_sym(a), sym.to_sym(b)))
    if isinstance(op, ast.Pow):
        if both_int and b >= 0:
            return a ** b
        A, B = sym.to_sym(a), sym.to_sym(b)
        if A.is_zero and B.is_number and B < 0:
            raise PyExc("ZeroDivisionError", ())
        return norm(sp.Pow(A, B))
    if isinstance(op, ast.BitAnd):
        if is_bool_sym(a) or is_bool_sym(b) or isinstance(a, (BooleanTrue, BooleanFalse)):
            return sym.And(a, b)
        return a & b
    if isinstance(op, ast.BitOr):
        if is_bool_sym(a) or is_bool_sym(b):
            return sym.Or(a, b)
        return a | b
    if isinstance(op, ast.MatMult):
        raise Undecided("matmul on scalars")
    raise Undecided(f"operator {type(op).__name__}")


def binop(it, op, a, b):
    if isinstance(a, Stale) or isinstance(b, Stale):
        # arithmetic on state left behind by earlier calls: the result depends on call history (failed frame obligation); the value
        # stays "stale" so that whatever is built from it is recognised as such
        st = a if isinstance(a, Stale) else b
        it.oblige(f"no-read-of-stale-state.{st.label}", sp.false, kind="frame")
        return Stale(st.label, owner=st.owner)
    if isinstance(a, SymObj) or isinstance(b, SymObj):
        names = {ast.Add: "add", ast.Sub: "sub", ast.Mult: "mul", ast.Div: "truediv", ast.MatMult: "matmul"}
        nm = names.get(type(op))
        if nm and isinstance(a, SymObj):
            return it.call_method(a, f"__{nm}__", [b], {})
        if nm and isinstance(b, SymObj):
            return it.call_method(b, f"__r{nm}__", [a], {})
        raise Undecided("operator on object")
    if isinstance(op, ast.MatMult):
        A, B = as_array(a), as_array(b)
        return _matmul(it, A, B)
    if isinstance(a, (list, tuple)) and isinstance(b, (list, tuple)) and isinstance(op, ast.Add):
        return a + b
    if isinstance(a, (list, tuple)) and isinstance(b, int) and isinstance(op, ast.Mult):
        return a * b
    if isinstance(b, (list, tuple)) and isinstance(a, int) and isinstance(op, ast.Mult):
        return a * b
    if isinstance(a, np.ndarray) or isinstance(b, np.ndarray):
        return elementwise(lambda x, y: _scalar_binop(it, op, x, y), a, b)
    return _scalar_binop(it, op, a, b)


def _matmul(it, A, B):
    if A.ndim == 1 and B.ndim == 1:
        return sum((_scalar_binop(it, ast.Mult(), x, y) for x, y in zip(A, B)), 0)
    if A.ndim == 2 and B.ndim == 1:
        return as_array([_matmul(it, A[i], B) for i in range(A.shape[0])])
    if A.ndim == 1 and B.ndim == 2:
        return as_array([_matmul(it, A, B[:, j]) for j in range(B.shape[1])])
    if A.ndim == 2 and B.ndim == 2:
        return as_array([[_matmul(it, A[i], B[:, j]) for j in range(B.shape[1])] for i in range(A.shape[0])])
    raise Undecided("matmul rank")


def unop(it, op, v):
    if isinstance(op, ast.Not):
        t = v
        if isinstance(v, np.ndarray):
            raise Undecided("not on array")
        if is_bool_sym(v):
            return sym.Not(v)
        return not it.truth(t)
    if isinstance(v, (np.ndarray, list)) and not isinstance(op, ast.Not):
        return elementwise(lambda x: unop(it, op, x), as_array(v))
    v = norm(v)
    if isinstance(op, ast.USub):
        return norm(-v)
    if isinstance(op, ast.UAdd):
        return v
    if isinstance(op, ast.Invert):
        if is_bool_sym(v) or isinstance(v, bool):
            return sym.Not(v) if is_sym(v) else (not v)
        return ~v
    raise Undecided("unary operator")


def _cmp_scalar(it, op, a, b):
    a, b = norm(a), norm(b)
    if isinstance(op, (ast.Is, ast.IsNot)) and (isinstance(a, Stale) or isinstance(b, Stale)):
        return a if isinstance(a, Stale) else b      # `x is None` on stale state: its truth value is a failed frame obligation
    if isinstance(op, (ast.Is, ast.IsNot)):
        same = a is b or (isinstance(a, (bool, int, str, EnumVal)) and type(a) is type(b) and a == b)
        return same if isinstance(op, ast.Is) else not same
    if isinstance(op, (ast.In, ast.NotIn)):
        if isinstance(b, Stale):
            return b     # its truth value is a failed frame obligation (interp.truth)
        if isinstance(b, (list, tuple, set, dict, str)):
            if any(is_sym(x) and sym.is_symbolic(x) for x in (b if not isinstance(b, (dict, str)) else [])) or (is_sym(a) and sym.is_symbolic(a)):
                cond = sym.Or(*[_cmp_scalar(it, ast.Eq(), a, x) for x in b])
                return cond if isinstance(op, ast.In) else sym.Not(cond)
            r = a in b
            return r if isinstance(op, ast.In) else not r
        raise Undecided("membership test")
    if isinstance(op, (ast.Eq, ast.NotEq)):
        if is_sym(a) or is_sym(b):
            if a is None or b is None or isinstance(a, (str, EnumVal)) or isinstance(b, (str, EnumVal)):
                r = False
            elif is_bool_sym(a) or is_bool_sym(b) or isinstance(a, bool) or isinstance(b, bool):
                A, B = sym.to_sym(a), sym.to_sym(b)
                r = sp.Equivalent(A, B) if A != B else True
                if r is not True:
                    r = sym.Or(sym.And(A, B), sym.And(sym.Not(A), sym.Not(B)))
            else:
                r = sym.Eq(a, b)
            if isinstance(r, (BooleanTrue, BooleanFalse)):
                r = bool(r)
            if isinstance(op, ast.Eq):
                return r
            return (not r) if isinstance(r, bool) else sym.Not(r)
        if isinstance(a, (list, tuple)) and isinstance(b, (list, tuple)):
            if len(a) != len(b):
                r = False
            else:
                parts = [_cmp_scalar(it, ast.Eq(), x, y) for x, y in zip(a, b)]
                r = sym.And(*parts) if any(is_sym(p) for p in parts) else all(parts)
                if isinstance(r, (BooleanTrue, BooleanFalse)):
                    r = bool(r)
            if isinstance(op, ast.Eq):
                return r
            return (not r) if isinstance(r, bool) else sym.Not(r)
        r = (a == b)
        return r if isinstance(op, ast.Eq) else not r
    if a is None or b is None:
        raise PyExc("TypeError", ("ordering comparison with None",))
    if is_sym(a) or is_sym(b):
        A, B = sym.to_sym(a), sym.to_sym(b)
        if A in (sp.oo, -sp.oo) or B in (sp.oo, -sp.oo):
            # comparisons with +-inf are decided when the other side is finite
            f = {ast.Lt: sp.Lt, ast.LtE: sp.Le, ast.Gt: sp.Gt, ast.GtE: sp.Ge}[type(op)]
            if A in (sp.oo, -sp.oo) and B in (sp.oo, -sp.oo):
                return bool(f(A, B))
            big, other_left = (A, False) if A in (sp.oo, -sp.oo) else (B, True)
            if other_left:   # finite < +-oo
                return {ast.Lt: big is sp.oo, ast.LtE: big is sp.oo, ast.Gt: big is not sp.oo, ast.GtE: big is not sp.oo}[type(op)]
            return {ast.Lt: big is not sp.oo, ast.LtE: big is not sp.oo, ast.Gt: big is sp.oo, ast.GtE: big is sp.oo}[type(op)]
        f = {ast.Lt: sym.Lt, ast.LtE: sym.Le, ast.Gt: sym.Gt, ast.GtE: sym.Ge}[type(op)]
        r = f(A, B)
        if isinstance(r, (BooleanTrue, BooleanFalse)):
            return bool(r)
        return r
    if isinstance(op, ast.Lt):
        return a < b
    if isinstance(op, ast.LtE):
        return a <= b
    if isinstance(op, ast.Gt):
        return a > b
    if isinstance(op, ast.GtE):
        return a >= b
    raise Undecided("comparison")


def compare(it, op, a, b):
    if (isinstance(a, np.ndarray) or isinstance(b, np.ndarray)) and not isinstance(op, (ast.Is, ast.IsNot, ast.In, ast.NotIn)):
        return elementwise(lambda x, y: _cmp_scalar(it, op, x, y), a, b)
    return _cmp_scalar(it, op, a, b)


# --------------------------------------------------------------------------- indexing
def _conv_index(idx):
    if isinstance(idx, tuple):
        return tuple(_conv_index(i) for i in idx)
    if isinstance(idx, (slice, type(None), type(Ellipsis))):
        return idx
    if isinstance(idx, Opaque) and idx.label == "Ellipsis":
        return Ellipsis
    if isinstance(idx, (list, np.ndarray)):
        arr = as_array(idx)
        if all(isinstance(norm(x), bool) for x in arr.reshape(-1)):
            return np.array([bool(norm(x)) for x in arr.reshape(-1)], dtype=bool).reshape(arr.shape)
        if all(isinstance(norm(x), int) for x in arr.reshape(-1)):
            return np.array([int(norm(x)) for x in arr.reshape(-1)], dtype=int).reshape(arr.shape)
        raise Undecided("symbolic index array")
    if isinstance(idx, (bool, np.bool_)):
        return bool(idx)
    return _toint(idx)


def _resolve_masks(it, idx):
    """boolean masks with symbolic truth values are decided entry by entry (one path per outcome)"""
    if isinstance(idx, tuple):
        return tuple(_resolve_masks(it, i) for i in idx)
    if isinstance(idx, (np.ndarray, list)):
        arr = as_array(idx)
        flat = [norm(x) for x in arr.reshape(-1)]
        if flat and all(isinstance(x, bool) or is_bool_sym(x) or isinstance(x, (BooleanTrue, BooleanFalse)) for x in flat) and any(is_sym(x) for x in flat):
            out = np.array([bool(it.truth(x)) for x in flat], dtype=bool).reshape(arr.shape)
            return out
    if is_sym(idx) and is_bool_sym(idx):
        return bool(it.truth(idx))
    return idx


def getitem(it, v, idx):
    if isinstance(v, Stale):
        it.oblige(f"no-read-of-stale-state.{v.label}", sp.false, kind="frame")
        return Stale(f"{v.label}[]", owner=v.owner)
    idx = _resolve_masks(it, idx)
    if isinstance(v, SymObj):
        return it.call_method(v, "__getitem__", [idx], {})
    if isinstance(v, dict):
        if idx not in v:
            raise PyExc("KeyError", (idx,))
        return v[idx]
    if isinstance(v, (list, tuple, str, range)):
        i = _conv_index(idx)
        try:
            return v[i]
        except IndexError:
            raise PyExc("IndexError", ("index out of range",))
        except TypeError:
            raise PyExc("TypeError", ("bad index",))
    if isinstance(v, np.ndarray):
        i = _conv_index(idx)
        try:
            r = v[i]
        except IndexError as exc:
            raise PyExc("IndexError", (str(exc),))
        return norm(r) if not isinstance(r, np.ndarray) else r
    if isinstance(v, sp.Basic):
        # numpy scalars accept [()] and [...] ; anything else is an IndexError
        if idx == () or idx is Ellipsis or (isinstance(idx, Opaque) and idx.label == "Ellipsis"):
            return v
        raise PyExc("IndexError", ("invalid index to scalar variable",))
    if isinstance(v, ClassRef) or isinstance(v, External) or isinstance(v, PyBuiltin):
        return v   # typing subscripts
    raise Undecided(f"subscript on {type(v).__name__}")


def setitem(it, v, idx, val):
    if isinstance(v, Stale):
        it.event(kind="store", obj=v.owner or v.label, attr=v.label + "[]", value=val, where=it.callstack[-1] if it.callstack else "")
        return
    idx = _resolve_masks(it, idx)
    if isinstance(v, SymObj):
        return it.call_method(v, "__setitem__", [idx, val], {})
    if isinstance(v, dict):
        v[idx] = val
        return
    if isinstance(v, list):
        v[_conv_index(idx)] = val
        return
    if isinstance(v, np.ndarray):
        i = _conv_index(idx)
        try:
            if isinstance(val, (list, tuple)):
                val = as_array(val)
            if id(v) in getattr(it, "int_arrays", {}):
                # integer dtype: numpy truncates toward zero on assignment
                val = elementwise(lambda x: x if (isinstance(x, int) or (is_sym(x) and x.is_integer)) else call_builtin(it, "int", [x], {}), as_array(val)) \
                    if isinstance(val, np.ndarray) else (val if (isinstance(norm(val), int) or (is_sym(norm(val)) and norm(val).is_integer)) else call_builtin(it, "int", [val], {}))
            v[i] = val
        except IndexError as exc:
            raise PyExc("IndexError", (str(exc),))
        except ValueError as exc:
            raise PyExc("ValueError", (str(exc),))
        return
    if isinstance(v, tuple):
        raise PyExc("TypeError", ("tuple does not support item assignment",))
    raise Undecided(f"subscript store on {type(v).__name__}")


# --------------------------------------------------------------------------- builtins
def _min_max(it, name, args, kwargs):
    if len(args) == 1:
        items = list(it.iterate(args[0]))
    else:
        items = list(args)
    if not items:
        raise PyExc("ValueError", (f"{name}() arg is an empty sequence",))
    acc = norm(items[0])
    for x in items[1:]:
        x = norm(x)
        # python: min(a, b) returns b only if b < a ; max(a, b) returns b only if b > a
        c = _cmp_scalar(it, ast.Lt() if name == "min" else ast.Gt(), x, acc)
        if isinstance(c, bool) or it.cfg.get("fork_minmax", False):
            if it.truth(c):
                acc = x
        else:
            a, b = sym.to_sym(x), sym.to_sym(acc)
            if a == b:
                acc = a
            elif it.cfg.get("minmax_piecewise", False):
                acc = sp.Piecewise((a, c), (b, True))
            else:
                # kept as one Min/Max node (same value as python's min/max on reals): the solver case-splits on whole arguments
                acc = (sp.Min if name == "min" else sp.Max)(b, a, evaluate=False)
    return acc


def call_builtin(it, name, args, kwargs):
    if name in ("float", "complex"):
        v = args[0]
        if isinstance(v, np.ndarray):
            if v.size != 1:
                raise PyExc("TypeError", ("only length-1 arrays can be converted to Python scalars",))
            return norm(v.reshape(-1)[0])
        if isinstance(v, str):
            return sym.to_sym(float(v))
        if isinstance(v, (list, tuple, SymObj)) or v is None:
            raise PyExc("TypeError", ("float() argument must be a string or a real number",))
        return norm(v)
    if name == "int":
        v = norm(args[0])
        if isinstance(v, int):
            return v
        if is_sym(v) and v.is_integer:
            return v
        if is_sym(v) and v.is_number:
            return int(v)
        if is_sym(v):
            # truncation toward zero: k integer, k <= v < k+1 for v >= 0 and k-1 < v <= k for v < 0
            k = it.fresh_int("trunc")
            it.assume(sym.Or(sym.And(sym.Ge(v, 0), sym.Le(k, v), sym.Lt(v, k + 1)), sym.And(sym.Lt(v, 0), sym.Ge(k, v), sym.Gt(v, k - 1))))
            return k
        raise Undecided("int() of a non-numeric value")
    if name == "bool":
        return it.truth(args[0])
    if name == "len":
        v = args[0]
        if isinstance(v, np.ndarray):
            if v.ndim == 0:
                raise PyExc("TypeError", ("len() of unsized object",))
            return v.shape[0]
        if isinstance(v, SymObj):
            return it.call_method(v, "__len__", [], {})
        if isinstance(v, (list, tuple, dict, str, set, range)):
            return len(v)
        raise PyExc("TypeError", ("object has no len()",))
    if name in ("min", "max"):
        return _min_max(it, name, args, kwargs)
    if name == "abs":
        v = norm(args[0])
        if isinstance(v, np.ndarray):
            return elementwise(lambda x: call_builtin(it, "abs", [x], {}), v)
        if is_sym(v) and sym.is_symbolic(v):
            if it.cfg.get("fork_abs", False):
                return v if it.truth(sym.Ge(v, 0)) else -v
            return sp.Abs(v)
        return norm(abs(v))
    if name == "pow":
        return _scalar_binop(it, ast.Pow(), args[0], args[1])
    if name == "isinstance":
        return _isinstance(it, args[0], args[1])
    if name == "range":
        return range(*[_toint(a) for a in args])
    if name == "enumerate":
        start = _toint(args[1]) if len(args) > 1 else _toint(kwargs.get("start", 0))
        return list(enumerate(it.iterate(args[0]), start))
    if name == "zip":
        return list(zip(*[it.iterate(a) for a in args]))
    if name == "tuple":
        return tuple(it.iterate(args[0])) if args else ()
    if name == "list":
        return list(it.iterate(args[0])) if args else []
    if name == "set":
        return set(it.iterate(args[0])) if args else set()
    if name == "dict":
        d = dict(args[0]) if args else {}
        d.update(kwargs)
        return d
    if name == "sum":
        items = it.iterate(args[0])
        acc = args[1] if len(args) > 1 else 0
        for x in items:
            acc = binop(it, ast.Add(), acc, x)
        return acc
    if name in ("str", "repr"):
        import pathlib
        if args and isinstance(args[0], pathlib.PurePath):
            return str(args[0])
        if args and isinstance(norm(args[0]), (int, str)) and not isinstance(args[0], bool):
            return str(norm(args[0]))
        return "<str>" if args else ""
    if name == "print":
        return None
    if name in ("any", "all"):
        items = [x for x in it.iterate(args[0])]
        if name == "any":
            for x in items:
                if it.truth(x):
                    return True
            return False
        for x in items:
            if not it.truth(x):
                return False
        return True
    if name == "sorted":
        return sorted(it.iterate(args[0]))
    if name == "reversed":
        return list(reversed(it.iterate(args[0])))
    if name == "round":
        v = norm(args[0])
        if isinstance(v, int):
            return v
        raise Undecided("round of symbolic value")
    if name == "callable":
        return isinstance(args[0], (Closure, BoundMethod, External, PyBuiltin, ClassRef)) or callable(args[0])
    if name == "hasattr":
        try:
            it.getattr(args[0], args[1])
            return True
        except PyExc:
            return False
    if name == "getattr":
        try:
            return it.getattr(args[0], args[1])
        except PyExc:
            if len(args) > 2:
                return args[2]
            raise
    if name == "type":
        return Opaque("type")
    if name == "slice":
        return slice(*[_toint(a) for a in args])
    if name == "divmod":
        return (binop(it, ast.FloorDiv(), args[0], args[1]), binop(it, ast.Mod(), args[0], args[1]))
    raise Undecided(f"builtin {name}")


def _isinstance(it, v, t):
    if isinstance(t, (tuple, list)):
        return any(_isinstance(it, v, x) for x in t)
    v = norm(v)
    name = None
    if isinstance(t, PyBuiltin):
        name = t.name
    elif isinstance(t, External):
        name = t.dotted
    elif isinstance(t, ClassRef):
        if isinstance(v, EnumVal):
            return v.cls == t.name
        if not isinstance(v, SymObj):
            return False
        from . import source
        c, m = v.cls, v.module
        seen = set()
        while c and (m, c) not in seen:
            seen.add((m, c))
            if c == t.name:
                return True
            mi = source.load_module(m)
            bases = mi.bases.get(c, [])
            c = None
            for b in bases:
                b = b.split(".")[-1]
                if b in mi.classes:
                    c = b
                    break
                d = mi.imports.get(b)
                if d and d.startswith("WallGo."):
                    parts = d.split(".")
                    m, c = ".".join(parts[1:-1]), parts[-1]
                    break
        return False
    elif isinstance(t, ExcClass):
        return isinstance(v, PyExc) and v.cls == t.name
    if name == "float":
        return (is_sym(v) and not is_bool_sym(v) and not v.is_integer) or isinstance(v, float)
    if name == "int":
        return (isinstance(v, int) and not isinstance(v, bool)) or (is_sym(v) and bool(v.is_integer))
    if name == "bool":
        return isinstance(v, bool) or is_bool_sym(v)
    if name == "complex":
        return False
    if name == "str":
        return isinstance(v, str)
    if name == "list":
        return isinstance(v, list)
    if name == "tuple":
        return isinstance(v, tuple)
    if name == "dict":
        return isinstance(v, dict)
    if name in ("numpy.ndarray",):
        return isinstance(v, np.ndarray)
    if name in ("numpy.floating", "numpy.float64", "numpy.number"):
        return is_sym(v) and not is_bool_sym(v)
    if name in ("numpy.integer",):
        return False
    raise Undecided(f"isinstance against {t!r}")


# --------------------------------------------------------------------------- attributes/methods of plain values
def value_getattr(it, v, name):
    if isinstance(v, np.ndarray):
        if name == "shape":
            return tuple(v.shape)
        if name == "ndim":
            return v.ndim
        if name == "size":
            return v.size
        if name == "T":
            return v.T
        if name == "real":
            return v
        if name == "dtype":
            return Opaque("dtype")
        return BoundMethod(v, name)
    if isinstance(v, sp.Basic):
        if name == "real":
            return v
        if name == "imag":
            return 0
        if name in ("shape",):
            return ()
        if name == "ndim":
            return 0
        if name == "size":
            return 1
        return BoundMethod(v, name)
    if isinstance(v, (list, dict, tuple, str, set, int, Stale)):
        return BoundMethod(v, name)
    if v is None:
        raise PyExc("AttributeError", (f"'NoneType' object has no attribute '{name}'",))
    if isinstance(v, Opaque):
        return Opaque(f"{v.label}.{name}")
    raise Undecided(f"attribute {name} of {type(v).__name__}")


def call_value_method(it, obj, name, args, kwargs):
    from . import npmodel
    if isinstance(obj, Stale):
        # a method of state left behind by earlier calls: mutators are stores on the owner, anything else reads it
        if name in ("clear", "append", "extend", "update", "pop", "add", "remove", "setdefault", "insert"):
            it.event(kind="store", obj=obj.owner or obj.label, attr=f"{obj.label}.{name}()", value=None, where=it.callstack[-1] if it.callstack else "")
            if name in ("pop", "setdefault"):
                it.oblige(f"no-read-of-stale-state.{obj.label}", sp.false, kind="frame")
                return Stale(f"{obj.label}.{name}()", owner=obj.owner)
            return None
        it.oblige(f"no-read-of-stale-state.{obj.label}", sp.false, kind="frame")
        return Stale(f"{obj.label}.{name}()", owner=obj.owner)
    if isinstance(obj, np.ndarray) or isinstance(obj, sp.Basic):
        h = npmodel.METHODS.get(name)
        if h is None:
            raise Undecided(f"array method {name}")
        return h(it, obj, args, kwargs)
    if isinstance(obj, list):
        if name in ("append", "extend", "insert", "pop", "copy", "index", "count", "reverse", "sort", "clear"):
            return getattr(obj, name)(*args, **kwargs)
    if isinstance(obj, dict):
        if name in ("get", "items", "keys", "values", "update", "pop", "copy", "setdefault"):
            r = getattr(obj, name)(*args, **kwargs)
            return list(r) if name in ("items", "keys", "values") else r
    if isinstance(obj, tuple) and name in ("index", "count"):
        return getattr(obj, name)(*args)
    if isinstance(obj, str):
        if name in ("format", "join", "lower", "upper", "strip", "split", "startswith", "endswith", "replace"):
            try:
                return getattr(obj, name)(*args, **kwargs)
            except Exception:
                return "<str>"
    if isinstance(obj, Opaque):
        return Opaque(f"{obj.label}.{name}()")
    raise Undecided(f"method {name} of {type(obj).__name__}")
