"""Verification conditions and their discharge (z3 5.1 python API in a process pool; on
``unknown`` the same SMT-LIB text goes to /usr/bin/cvc5 and /usr/bin/z3)."""
from __future__ import annotations

import os
import re
import subprocess
import tempfile
import time
from concurrent.futures import ProcessPoolExecutor
from dataclasses import dataclass, field

import sympy as sp
import z3

from .sym import Encoder, EncodeError, to_sym

TIMEOUT_MS = int(os.environ.get("WGVC_TIMEOUT_MS", "20000"))
WORKERS = int(os.environ.get("WGVC_WORKERS", "16"))


@dataclass
class VC:
    """facts /\\ den_assumed  =>  goal.   ``expect`` is 'valid' for obligations, 'invalid' for
    canaries (must come back sat) and 'sat' for reachability checks (facts alone must be sat)."""
    name: str
    facts: list
    goal: object
    expect: str = "valid"
    func: str = ""            # function under contract this belongs to
    kind: str = "post"        # post | lemma | safety | canary | reach | inv | frame
    meta: dict = field(default_factory=dict)
    # filled by discharge
    verdict: str = ""
    backend: str = ""
    seconds: float = 0.0
    model: dict = field(default_factory=dict)
    smt2: str = ""
    detail: str = ""
    n_dens: int = 0

    @property
    def ok(self) -> bool:
        if self.expect == "valid":
            return self.verdict == "unsat"
        return self.verdict == "sat"


def build_smt2(vc: VC) -> str:
    enc = Encoder()
    s = z3.Solver()
    facts = [enc.boolean(f) for f in vc.facts]
    if vc.expect == "sat":
        goal = None
    else:
        goal = enc.boolean(vc.goal)
    for f in facts:
        s.add(f)
    for ax in enc.side:
        s.add(ax)
    for d in enc.dens:
        if z3.is_rational_value(d):
            continue
        s.add(d != 0)
    vc.n_dens = len(enc.dens)
    if goal is not None:
        s.add(z3.Not(goal))
    return s.to_smt2()


def _run_z3_api(smt2: str, timeout_ms: int):
    t0 = time.time()
    s = z3.Solver()
    s.set("timeout", timeout_ms)
    s.from_string(smt2)
    r = s.check()
    model = {}
    if r == z3.sat:
        m = s.model()
        for d in m.decls():
            try:
                model[d.name()] = str(m[d])
            except Exception:  # pragma: no cover
                model[d.name()] = "?"
    reason = s.reason_unknown() if r == z3.unknown else ""
    return str(r), model, time.time() - t0, reason


def _run_cli(cmd: list, smt2: str, timeout_s: float):
    t0 = time.time()
    with tempfile.NamedTemporaryFile("w", suffix=".smt2", delete=False, dir=os.environ.get("WGVC_TMP", None)) as fh:
        fh.write(smt2)
        path = fh.name
    try:
        out = subprocess.run(cmd + [path], capture_output=True, text=True, timeout=timeout_s + 5)
        txt = (out.stdout or "").strip().splitlines()
        verdict = txt[0].strip() if txt else "unknown"
        if verdict not in ("sat", "unsat", "unknown"):
            verdict = "unknown"
    except subprocess.TimeoutExpired:
        verdict = "unknown"
    finally:
        os.unlink(path)
    return verdict, time.time() - t0


def _worker(args):
    name, smt2, timeout_ms, second_opinion = args
    try:
        verdict, model, secs, reason = _run_z3_api(smt2, timeout_ms)
    except z3.Z3Exception as exc:
        return name, "error", "z3-5.1", {}, 0.0, f"z3 exception: {exc}"
    backend = "z3-5.1"
    detail = reason
    if verdict == "unknown" or second_opinion:
        others = []
        for label, cmd in (("cvc5", ["/usr/bin/cvc5", "--nl-cov", f"--tlimit={timeout_ms}"]),
                           ("z3-4.8", ["/usr/bin/z3", f"-T:{max(1, timeout_ms // 1000)}"])):
            if not os.path.exists(cmd[0]):
                continue
            text = smt2 if label != "cvc5" else "(set-logic ALL)\n" + smt2
            v2, s2 = _run_cli(cmd, text, timeout_ms / 1000)
            others.append((label, v2, s2))
            if verdict == "unknown" and v2 in ("sat", "unsat"):
                verdict, backend, secs = v2, label, secs + s2
                if not second_opinion:
                    break
        if second_opinion:
            decided = [(l, v) for l, v, _ in others if v in ("sat", "unsat")]
            if any(v != verdict for _, v in decided) and verdict in ("sat", "unsat"):
                return name, "error", backend, model, secs, f"solver disagreement: {verdict} vs {decided}"
            detail = (detail + " second-opinion=" + ",".join(f"{l}:{v}" for l, v, _ in others)).strip()
    return name, verdict, backend, model, secs, detail


def discharge(vcs: list, second_opinion: bool = False, timeout_ms: int | None = None) -> None:
    """Fill verdict/backend/seconds/model of every VC."""
    tmo = timeout_ms or TIMEOUT_MS
    jobs = []
    for vc in vcs:
        try:
            vc.smt2 = build_smt2(vc)
        except EncodeError as exc:
            vc.verdict, vc.detail = "unknown", f"encode: {exc}"
            continue
        jobs.append((vc.name, vc.smt2, tmo, second_opinion))
    byname = {vc.name: vc for vc in vcs}
    if len(byname) != len(vcs):
        seen = set()
        for vc in vcs:
            if vc.name in seen:
                raise RuntimeError(f"duplicate obligation name {vc.name}")
            seen.add(vc.name)
    if not jobs:
        return
    if WORKERS <= 1 or len(jobs) == 1:
        results = [_worker(j) for j in jobs]
    else:
        with ProcessPoolExecutor(max_workers=min(WORKERS, len(jobs))) as ex:
            results = list(ex.map(_worker, jobs, chunksize=1))
    for name, verdict, backend, model, secs, detail in results:
        vc = byname[name]
        vc.verdict, vc.backend, vc.model, vc.seconds, vc.detail = verdict, backend, model, secs, detail


_quick_cache: dict = {}


def quick_sat(facts: list, timeout_ms: int = 1500) -> str:
    """Feasibility of a path condition (in-process; used to prune infeasible branches)."""
    key = tuple(sp.srepr(to_sym(f)) for f in facts)
    if key in _quick_cache:
        return _quick_cache[key]
    try:
        enc = Encoder()
        s = z3.Solver()
        s.set("timeout", timeout_ms)
        for f in facts:
            s.add(enc.boolean(f))
        for ax in enc.side:
            s.add(ax)
        for d in enc.dens:
            if not z3.is_rational_value(d):
                s.add(d != 0)
        r = str(s.check())
    except EncodeError:
        r = "unknown"
    _quick_cache[key] = r
    return r
