"""Verification conditions and their discharge (z3 5.1 python API in a process pool; on
``unknown`` the same SMT-LIB text goes to /usr/bin/cvc5 and /usr/bin/z3)."""
from __future__ import annotations

import os
import re
import subprocess
import tempfile
import time
from concurrent.futures import ProcessPoolExecutor
from dataclasses import dataclass, field

import sympy as sp
import z3

from .sym import Encoder, EncodeError, to_sym

TIMEOUT_MS = int(os.environ.get("WGVC_TIMEOUT_MS", "90000"))   # budget of the slow strategies
FIRST_MS = int(os.environ.get("WGVC_FIRST_MS", "10000"))       # budget of the default strategy
WORKERS = int(os.environ.get("WGVC_WORKERS", "16"))
PRESAMPLE_MIN_OPS = int(os.environ.get("WGVC_PRESAMPLE_MIN_OPS", "80"))


@dataclass
class VC:
    """facts /\\ den_assumed  =>  goal.   ``expect`` is 'valid' for obligations, 'invalid' for
    canaries (must come back sat) and 'sat' for reachability checks (facts alone must be sat)."""
    name: str
    facts: list
    goal: object
    expect: str = "valid"
    func: str = ""            # function under contract this belongs to
    kind: str = "post"        # post | lemma | safety | canary | reach | inv | frame
    meta: dict = field(default_factory=dict)
    # filled by discharge
    verdict: str = ""
    backend: str = ""
    seconds: float = 0.0
    model: dict = field(default_factory=dict)
    smt2: str = ""
    detail: str = ""
    n_dens: int = 0

    @property
    def ok(self) -> bool:
        if self.expect == "valid":
            return self.verdict == "unsat"
        return self.verdict == "sat"


def _expanded_goal(goal):
    """Large equational goal  a == b  ->  expand(numerator(a - b)) == 0  (radicals reduced by sqrt(u)**2 = u).
    A pure normalisation step of VC generation; the solver still decides the normal form."""
    import signal

    def on_alarm(*a):
        raise TimeoutError()
    if not isinstance(goal, sp.Eq) or sp.count_ops(goal) < 120:
        return None
    old = signal.signal(signal.SIGALRM, on_alarm)
    signal.alarm(30)
    try:
        n, _ = sp.fraction(sp.together(goal.lhs - goal.rhs))
        e = sp.expand(n)
        if sp.count_ops(e) * 2 < sp.count_ops(goal):
            return sp.Eq(e, 0) if e != 0 else sp.true
        return None
    except (TimeoutError, RecursionError):
        return None
    finally:
        signal.alarm(0)
        signal.signal(signal.SIGALRM, old)


def build_smt2(vc: VC, congruence: bool = True, max_fact_size: int | None = None, abstract: bool = False) -> str:
    """SMT-LIB text of  facts /\\ side axioms /\\ denominators non-zero /\\ not goal.
    Uninterpreted applications are Ackermann-reduced to constants; with ``congruence`` the reduction
    is exact (equisatisfiable), without it the query is weaker (unsat is still sound, sat is not)."""
    enc = Encoder(ack=True, abstract=abstract)
    s = z3.Solver()
    chosen = vc.facts if max_fact_size is None else [f for f in vc.facts if sp.count_ops(f) <= max_fact_size]
    facts = [enc.boolean(f) for f in chosen]
    sgoal = vc.goal
    if vc.expect != "sat" and not abstract:
        if "expanded_goal" not in vc.meta:
            vc.meta["expanded_goal"] = _expanded_goal(vc.goal)
        if vc.meta["expanded_goal"] is not None:
            sgoal = vc.meta["expanded_goal"]
            vc.detail_pre = "goal normalised by polynomial expansion"
    goal = None if vc.expect == "sat" else enc.boolean(sgoal)
    for f in facts:
        s.add(f)
    if goal is not None:
        s.add(z3.Not(goal))
    for ax in enc.side:
        s.add(ax)
    for d in enc.dens:
        if z3.is_rational_value(d):
            continue
        s.add(d != 0)
    if congruence:
        for c in enc.congruence():
            s.add(c)
    if max_fact_size is None and congruence:
        vc.n_dens = len(enc.dens)
        vc.meta["apps"] = enc.app_names()
        vc.meta["app_terms"] = dict(enc.app_terms)
        vc.meta["index_consts"] = enc.index_constants()
    return s.to_smt2()


def _run_z3_api(smt2: str, timeout_ms: int, tactic: str | None = None):
    t0 = time.time()
    s = z3.Tactic(tactic).solver() if tactic else z3.Solver()
    s.set("timeout", timeout_ms)
    s.from_string(smt2)
    r = s.check()
    model = {}
    if r == z3.sat:
        m = s.model()
        for d in m.decls():
            try:
                model[d.name()] = str(m[d])
            except Exception:  # pragma: no cover
                model[d.name()] = "?"
    reason = s.reason_unknown() if r == z3.unknown else ""
    return str(r), model, time.time() - t0, reason


def _try_hint(smt2: str, hint: dict, timeout_ms: int = 5000, ints=()):
    """A contract may supply typical parameter values; they only restrict the search for a model (sound for sat)."""
    from .sym import smt_name
    s = z3.Solver()
    s.set("timeout", timeout_ms)
    s.from_string(smt2)
    t0 = time.time()
    for k, v in hint.items():
        if isinstance(v, bool):
            continue
        if isinstance(v, int) and ints and k in ints:
            s.add(z3.Int(smt_name(k)) == z3.IntVal(v))
        else:
            s.add(z3.Real(smt_name(k)) == z3.RealVal(str(v)))
    if s.check() == z3.sat:
        m = s.model()
        return "sat", {d.name(): str(m[d]) for d in m.decls()}, time.time() - t0
    return "unknown", {}, time.time() - t0


def _instantiate_search(smt2: str, tries: int, seed: int, index_consts=(), per_try_ms: int = 4000):
    """Model search for a query the solver left open.  The plain real constants and the index-like
    Ackermann constants are fixed to random small rationals that are consistent with the *linear* facts
    (checked incrementally), then the solver finds the remaining values in a low-degree query.
    Only a *sat* answer is used: the model found is a model of the original query."""
    import random
    rnd = random.Random(seed)
    pool = ["1/10", "1/5", "1/4", "1/3", "2/5", "1/2", "3/5", "2/3", "3/4", "4/5", "9/10", "1", "11/10", "5/4",
            "3/2", "2", "5/2", "3", "5", "10", "0", "-1/2", "-1", "-2"]
    base = z3.Solver()
    base.from_string(smt2)
    assertions = list(base.assertions())
    consts = {}

    def walk(e, seen):
        if e.get_id() in seen:
            return
        seen.add(e.get_id())
        if z3.is_const(e) and e.decl().kind() == z3.Z3_OP_UNINTERPRETED and z3.is_real(e):
            consts[str(e)] = e
        for c in e.children():
            walk(c, seen)
    seen: set = set()
    for a in assertions:
        walk(a, seen)
    idx = set(index_consts)
    free = [c for n, c in sorted(consts.items()) if ((not n.startswith("app.") and "!" not in n) or n in idx) and n != "pi"]

    free_ids = {c.get_id() for c in free}

    def only_free(e, seen):
        """the assertion mentions no constant other than the ones we are going to fix"""
        if e.get_id() in seen:
            return True
        seen.add(e.get_id())
        if z3.is_const(e) and e.decl().kind() == z3.Z3_OP_UNINTERPRETED:
            return e.get_id() in free_ids
        return all(only_free(c, seen) for c in e.children())
    linear = [a for a in assertions if only_free(a, set())]     # the "precondition" part: small, possibly nonlinear
    t0 = time.time()
    for attempt in range(tries):
        keep_prob = (1.0, 0.8, 0.6, 0.4)[attempt % 4]
        lin = z3.Solver()
        lin.set("timeout", 1500)
        for a in linear:
            lin.add(a)
        if lin.check() != z3.sat:
            return "unknown", {}, time.time() - t0
        order = list(free)
        rnd.shuffle(order)
        # diversify: pin a few constants to random values when the precondition part stays satisfiable
        for c in order[:max(1, len(order) // 3)]:
            for _k in range(2):
                v = z3.RealVal(rnd.choice(pool))
                lin.push()
                lin.add(c == v)
                if lin.check() == z3.sat:
                    break
                lin.pop()
        if lin.check() != z3.sat:
            continue
        pm = lin.model()
        chosen = []
        for c in order:
            if rnd.random() > keep_prob:
                continue
            val = pm.eval(c, model_completion=True)
            if z3.is_rational_value(val):
                chosen.append((c, val))
        s = z3.Solver()
        s.set("timeout", per_try_ms)
        for a in assertions:
            s.add(a)
        for c, v in chosen:
            s.add(c == v)
        if s.check() == z3.sat:
            m = s.model()
            return "sat", {d.name(): str(m[d]) for d in m.decls()}, time.time() - t0
        if time.time() - t0 > 120:
            break
    return "unknown", {}, time.time() - t0


def _certify_point(facts, goal, env: dict, timeout_ms: int = 20000):
    """The obligation instantiated at the rational point ``env`` (exact substitution), decided by z3: sat = the point is a counter-model."""
    syms = set()
    for f in list(facts) + [goal]:
        if isinstance(f, sp.Basic):
            syms |= f.free_symbols
    sub = {}
    for s_ in syms:
        if s_.name in env:
            v = env[s_.name]
            sub[s_] = (sp.true if v else sp.false) if isinstance(v, bool) else (sp.Integer(v) if isinstance(v, int) else sp.Rational(v.numerator, v.denominator))
    inst = VC("point", [to_sym(f).subs(sub) if isinstance(to_sym(f), sp.Basic) else f for f in facts],
              to_sym(goal).subs(sub) if isinstance(to_sym(goal), sp.Basic) else goal)
    inst.meta["expanded_goal"] = None
    text = build_smt2(inst)
    verdict, model, secs, _ = _run_z3_api(text, timeout_ms)
    return verdict == "sat"


def _presample(args):
    """numeric counter-model search for a large closed-form obligation BEFORE the (expensive) full query is built"""
    import pickle
    import zlib
    from . import falsify
    name, blob, budget = args
    t0 = time.time()
    try:
        facts, goal, ints = pickle.loads(blob)
        env = falsify.search(facts, goal, zlib.crc32(name.encode()) & 0xffff, budget_s=budget)
        if env and _certify_point(facts, goal, env):
            return name, {k: str(v) for k, v in env.items()}, time.time() - t0
    except Exception:
        pass
    return name, None, time.time() - t0


def _run_cli(cmd: list, smt2: str, timeout_s: float):
    t0 = time.time()
    with tempfile.NamedTemporaryFile("w", suffix=".smt2", delete=False, dir=os.environ.get("WGVC_TMP", None)) as fh:
        fh.write(smt2)
        path = fh.name
    try:
        out = subprocess.run(cmd + [path], capture_output=True, text=True, timeout=timeout_s + 5)
        txt = (out.stdout or "").strip().splitlines()
        verdict = txt[0].strip() if txt else "unknown"
        if verdict not in ("sat", "unsat", "unknown"):
            verdict = "unknown"
    except subprocess.TimeoutExpired:
        verdict = "unknown"
    finally:
        os.unlink(path)
    return verdict, time.time() - t0


def _worker(args):
    name, fast, smt2, timeout_ms, second_opinion, index_consts, hint, blob = args
    secs0 = 0.0
    for label, text in (fast or []):
        # weaker queries (abstraction / small facts only / no congruence): only an unsat answer is used
        try:
            verdict, _, s0, _ = _run_z3_api(text, min(timeout_ms, 4000))
            secs0 += s0
            if verdict == "unsat" and not second_opinion:
                return name, "unsat", "z3-5.1", {}, secs0, label
            if verdict == "unsat" and second_opinion:
                # thorough tier: the other solvers give their opinion on the SAME (weaker) query; unsat of it carries over to the obligation
                others = []
                for lab2, cmd in (("cvc5", ["/usr/bin/cvc5", "--tlimit=6000"]), ("z3-4.8", ["/usr/bin/z3", "-T:6"])):
                    if not os.path.exists(cmd[0]):
                        continue
                    v2, s2 = _run_cli(cmd, text if lab2 != "cvc5" else "(set-logic ALL)\n" + text, 6)
                    others.append((lab2, v2))
                    secs0 += s2
                if any(v == "sat" for _, v in others):
                    return name, "error", "z3-5.1", {}, secs0, f"solver disagreement on the {label} query: unsat vs {others}"
                return name, "unsat", "z3-5.1", {}, secs0, label + " second-opinion=" + ",".join(f"{l}:{v}" for l, v in others)
        except z3.Z3Exception:
            pass
    if hint:
        try:
            vh, mh, sh = _try_hint(smt2, hint)
            secs0 += sh
            if vh == "sat" and not second_opinion:
                return name, "sat", "z3-5.1+hint", mh, secs0, "model found under the contract's parameter hint"
        except z3.Z3Exception:
            pass
    try:
        verdict, model, secs, reason = _run_z3_api(smt2, min(timeout_ms, FIRST_MS))
    except z3.Z3Exception as exc:
        return name, "error", "z3-5.1", {}, 0.0, f"z3 exception: {exc}"
    secs += secs0
    backend = "z3-5.1"
    detail = reason
    if verdict == "unknown" and blob:
        # closed-form obligation: sample points numerically, let z3 certify the candidate on the same query (wgvc/falsify.py)
        import pickle
        import zlib
        from . import falsify
        t0 = time.time()
        try:
            facts, goal, ints = pickle.loads(blob)
            env = falsify.search(facts, goal, zlib.crc32(name.encode()) & 0xffff, hint=None)
            if env:
                if _certify_point(facts, goal, env):
                    from .sym import smt_name
                    verdict, model, backend = "sat", {smt_name(k): str(v) for k, v in env.items()}, "sampling+z3-5.1"
                    detail = "numeric candidate; obligation instantiated at the point (exact rationals) decided sat by z3"
                else:
                    detail = (detail + f" numeric counter-candidate not certified: { {k: str(v) for k, v in env.items()} }").strip()
        except Exception as exc:      # the stage is an optimisation: any failure leaves the verdict to the solvers
            detail = (detail + f" sampling stage failed: {exc!r}").strip()
        secs += time.time() - t0
    if verdict == "unknown":
        import zlib
        v3, m3, s3 = _instantiate_search(smt2, 25, zlib.crc32(name.encode()) & 0xffff, index_consts)
        secs += s3
        if v3 == "sat":
            verdict, model, backend, detail = "sat", m3, "z3-5.1+instantiation", ""
    if verdict == "unknown":
        # second strategy of the same solver: the nlsat tactic (complete for QF_NRA, good at finding models)
        try:
            v1, m1, s1, r1 = _run_z3_api(smt2, timeout_ms, tactic="qfnra-nlsat")
            secs += s1
            if v1 in ("sat", "unsat"):
                verdict, model, backend, detail = v1, m1, "z3-5.1/nlsat", ""
        except z3.Z3Exception:
            pass
    if verdict == "unknown" or second_opinion:
        others = []
        cli_ms = min(timeout_ms, 30000) if not second_opinion or verdict == "unknown" else 6000
        for label, cmd in (("cvc5", ["/usr/bin/cvc5", f"--tlimit={cli_ms}"]),
                           ("z3-4.8", ["/usr/bin/z3", f"-T:{max(1, cli_ms // 1000)}"])):
            if not os.path.exists(cmd[0]):
                continue
            text = smt2 if label != "cvc5" else "(set-logic ALL)\n" + smt2
            v2, s2 = _run_cli(cmd, text, cli_ms / 1000)
            others.append((label, v2, s2))
            if verdict == "unknown" and v2 in ("sat", "unsat"):
                verdict, backend, secs = v2, label, secs + s2
                if not second_opinion:
                    break
        if verdict == "unknown":
            import zlib
            v3, m3, s3 = _instantiate_search(smt2, 40, zlib.crc32(name.encode()) & 0xffff, index_consts)
            secs += s3
            if v3 == "sat":
                verdict, model, backend = "sat", m3, "z3-5.1+instantiation"
        if second_opinion:
            decided = [(l, v) for l, v, _ in others if v in ("sat", "unsat")]
            if any(v != verdict for _, v in decided) and verdict in ("sat", "unsat"):
                return name, "error", backend, model, secs, f"solver disagreement: {verdict} vs {decided}"
            detail = (detail + " second-opinion=" + ",".join(f"{l}:{v}" for l, v, _ in others)).strip()
    return name, verdict, backend, model, secs, detail


def discharge(vcs: list, second_opinion: bool = False, timeout_ms: int | None = None) -> None:
    """Fill verdict/backend/seconds/model of every VC."""
    tmo = timeout_ms or TIMEOUT_MS
    jobs = []
    import pickle
    pre = []
    for vc in vcs:
        if vc.expect != "valid":
            continue
        try:
            parts = [to_sym(f) for f in vc.facts] + [to_sym(vc.goal)]
            if sum(sp.count_ops(x) for x in parts if isinstance(x, sp.Basic)) < PRESAMPLE_MIN_OPS:
                continue
            ints = tuple(s_.name for f in parts if isinstance(f, sp.Basic) for s_ in f.free_symbols if s_.is_integer)
            pre.append((vc.name, pickle.dumps((parts[:-1], parts[-1], ints)), 1.0))
        except Exception:
            continue
    refuted = {}
    if pre:
        if WORKERS <= 1 or len(pre) == 1:
            res = [_presample(j) for j in pre]
        else:
            with ProcessPoolExecutor(max_workers=min(WORKERS, len(pre))) as ex:
                res = list(ex.map(_presample, pre, chunksize=1))
        refuted = {n: (m, t) for n, m, t in res if m is not None}
    for vc in vcs:
        if vc.name in refuted:
            vc.verdict, vc.backend, vc.model, vc.seconds = "sat", "sampling+z3-5.1", refuted[vc.name][0], refuted[vc.name][1]
            from .sym import smt_name
            vc.meta["raw_model"] = {smt_name(k): v for k, v in vc.model.items()}
            vc.detail = "numeric candidate; obligation instantiated at the point (exact rationals) decided sat by z3"
            vc.smt2 = "; large closed-form obligation refuted at a rational point before the full query was built; model = the point"
            continue
        try:
            vc.smt2 = build_smt2(vc)
        except EncodeError as exc:
            vc.verdict, vc.detail = "unknown", f"encode: {exc}"
            continue
        fast = []
        if vc.expect == "valid" and vc.kind != "lemma":
            # structural obligations (which bracket, which branch, which argument) usually do not need the arithmetic at all:
            # every non-linear subterm abstracted to one constant (a relaxation of the query, so its unsat carries over)
            try:
                fast.append(("linear-abstraction", build_smt2(vc, congruence=False, abstract=True)))
            except Exception:
                pass
        if vc.expect == "valid":
            sizes = sorted(sp.count_ops(f) for f in vc.facts)
            if sizes and sizes[-1] > 60:
                fast.append(("small-facts-only", build_smt2(vc, congruence=False, max_fact_size=60)))
            if vc.meta.get("apps"):
                fast.append(("without-congruence", build_smt2(vc, congruence=False)))
        blob = None
        if vc.expect == "valid" and not vc.meta.get("apps"):
            try:
                import pickle
                ints = tuple(s_.name for f in list(vc.facts) + [vc.goal] if isinstance(f, sp.Basic) for s_ in f.free_symbols if s_.is_integer)
                blob = pickle.dumps(([to_sym(f) for f in vc.facts], to_sym(vc.goal), ints))
            except Exception:
                blob = None
        jobs.append((vc.name, fast, vc.smt2, tmo, second_opinion, vc.meta.get("index_consts", []), vc.meta.get("hint"), blob))
    byname = {vc.name: vc for vc in vcs}
    if len(byname) != len(vcs):
        seen = set()
        for vc in vcs:
            if vc.name in seen:
                raise RuntimeError(f"duplicate obligation name {vc.name}")
            seen.add(vc.name)
    if not jobs:
        return
    if WORKERS <= 1 or len(jobs) == 1:
        results = [_worker(j) for j in jobs]
    else:
        with ProcessPoolExecutor(max_workers=min(WORKERS, len(jobs))) as ex:
            results = list(ex.map(_worker, jobs, chunksize=1))
    for name, verdict, backend, model, secs, detail in results:
        vc = byname[name]
        names = vc.meta.get("apps", {})
        vc.meta["raw_model"] = dict(model)
        model = {names.get(k, k): v for k, v in model.items()}
        vc.verdict, vc.backend, vc.model, vc.seconds, vc.detail = verdict, backend, model, secs, detail


_quick_cache: dict = {}


def quick_sat(facts: list, timeout_ms: int = 1500) -> str:
    """Feasibility of a path condition (in-process; used to prune infeasible branches)."""
    key = tuple(sp.srepr(to_sym(f)) for f in facts)
    if key in _quick_cache:
        return _quick_cache[key]
    try:
        enc = Encoder(ack=True)
        s = z3.Solver()
        s.set("timeout", timeout_ms)
        for f in facts:
            s.add(enc.boolean(f))
        for ax in enc.side:
            s.add(ax)
        for d in enc.dens:
            if not z3.is_rational_value(d):
                s.add(d != 0)
        for c in enc.congruence():
            s.add(c)
        r = str(s.check())
    except EncodeError:
        r = "unknown"
    _quick_cache[key] = r
    return r
