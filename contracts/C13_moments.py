"""C13 - out-of-equilibrium moments are the momentum integrals they are defined to be.

  * getDeltas: the deviation is wrapped as a polynomial over (particle, z, pz, pp) without endpoints, brought to the
    cardinal (grid-value) basis on ALL polynomial axes, and integrated over the two momentum axes with the weights
    W00 = (dpz/drho_z)(dpp/drho_par) pp / (4 pi^2 E),  W02 = pz^2 W00,  W20 = E^2 W00,  W11 = E pz W00,
    E^2 = m^2(z) + pz^2 + pp^2   (d^3p/((2 pi)^3 E) after the azimuthal integral, times the Jacobians of the map);
  * deltaToTmunu equals the boosted direct integral of p^mu p^nu delta f:
      T30 = sum_i dof_i [D20 u3 u0 + D02 ub3 ub0 + D11 (u3 ub0 + ub3 u0)],
      T33 = sum_i dof_i [D20 u3 u3 + D02 ub3 ub3 + 2 D11 u3 ub3],    u = gamma (1, v), ubar = gamma (v, 1)
    for every velocity |v| < 1 and every moment set (the perpendicular part p_perp^mu p_perp^nu has no 30/33 component).
Linearity in the deviation follows from the contract of Polynomial.integrate / changeBasis (C16): sum of weight * grid value.
Not decided: exactness of the quadrature itself (C16 formula contract + the Gauss-Chebyshev-Lobatto theorem).
"""
from __future__ import annotations

import numpy as np
import sympy as sp

from wgvc.api import *            # noqa: F401,F403
from wgvc import sym
from wgvc.builtins_model import as_array
from .common import gammaSq
from .C04_plasma import make_eom, eom_registry, msq, PHI

PROPERTY = "C13"
MIN_OBLIGATIONS = 14


def build(chk):
    c_tmunu(chk)
    c_getdeltas(chk)
    c_helpers_do_not_touch_the_deviation(chk)
    c_containers(chk)
    # 'momentum compactification and its Jacobian' (anchors): cached momenta and Jacobians are current after every rescaling (shared with C17)
    from .C17_grids import c_cache
    c_cache(chk, momentum_only=True)


def c_containers(chk):
    """Linearity is carried through the container arithmetic the solver uses for its damped updates (multiplier * new + (1 - multiplier) *
    old): BoltzmannDeltas +, -, number * , * number act on each of the four moments separately, and BoltzmannResults does the same on deltaF
    and Deltas, so a linear combination of moment sets IS the moment set of the linear combination of deviations."""
    NAMES = ("Delta00", "Delta02", "Delta20", "Delta11")

    def deltas(tag):
        return SymObj("BoltzmannDeltas", "containers", label=f"deltas.{tag}", attrs={n: real(f"{n}.{tag}") for n in NAMES})
    lam = real("number")
    fnq = "containers.BoltzmannDeltas"
    cases = {"__add__": (lambda a, b: [deltas("b")], lambda x, y, l: x + y), "__sub__": (lambda a, b: [deltas("b")], lambda x, y, l: x - y),
             "__mul__": (lambda a, b: [lam], lambda x, y, l: l * x), "__rmul__": (lambda a, b: [lam], lambda x, y, l: l * x)}
    for meth, (mkargs, spec) in cases.items():
        def mk(it, mkargs=mkargs):
            a = deltas("a")
            args = mkargs(a, None)
            return a, args, {}, {"a": a, "args": args}
        rets = sel(chk.summarize("containers", f"BoltzmannDeltas.{meth}", mk))
        if len(rets) != 1:
            chk.undecided.append(f"BoltzmannDeltas.{meth}: {len(rets)} returning paths")
            continue
        p = rets[0]
        r = p.value
        a = p.state["a"]
        b = p.state["args"][0]
        ok = isinstance(r, SymObj) and all(n in r.attrs for n in NAMES)
        goals = []
        if ok:
            for n in NAMES:
                y = b.attrs[n] if isinstance(b, SymObj) else None
                goals.append(Eq(r.attrs[n], spec(a.attrs[n], y, lam)))
        chk.vc(f"BoltzmannDeltas.{meth}.acts-on-each-moment-separately", p.pc, And(*goals) if ok else sp.false, func=f"{fnq}.{meth}")
    # BoltzmannResults: deltaF and Deltas combine linearly (the error estimates combine with |number| by design)
    def results(tag):
        return SymObj("BoltzmannResults", "results", label=f"results.{tag}",
                      attrs={"deltaF": real(f"deltaF.{tag}"), "Deltas": real(f"Deltas.{tag}"), "truncationError": real(f"trunc.{tag}"),
                             "linearizationCriterion1": real(f"lin1.{tag}"), "linearizationCriterion2": real(f"lin2.{tag}")})
    rcases = {"__add__": (lambda: [results("b")], lambda x, y, l: x + y), "__sub__": (lambda: [results("b")], lambda x, y, l: x - y),
              "__mul__": (lambda: [lam], lambda x, y, l: l * x), "__rmul__": (lambda: [lam], lambda x, y, l: l * x)}
    for meth, (mkargs, spec) in rcases.items():
        def mk2(it, mkargs=mkargs):
            a = results("a")
            args = mkargs()
            return a, args, {}, {"a": a, "args": args}
        rets = sel(chk.summarize("results", f"BoltzmannResults.{meth}", mk2))
        if len(rets) != 1:
            chk.undecided.append(f"BoltzmannResults.{meth}: {len(rets)} returning paths")
            continue
        p = rets[0]
        r, a, b = p.value, p.state["a"], p.state["args"][0]
        ok = isinstance(r, SymObj) and "deltaF" in r.attrs and "Deltas" in r.attrs
        goals = [Eq(r.attrs[n], spec(a.attrs[n], b.attrs[n] if isinstance(b, SymObj) else None, lam)) for n in ("deltaF", "Deltas")] if ok else [sp.false]
        chk.vc(f"BoltzmannResults.{meth}.deviation-and-moments-combine-linearly", p.pc, And(*goals), func=f"results.BoltzmannResults.{meth}")


def c_helpers_do_not_touch_the_deviation(chk):
    """getDeltas hands the SAME array deltaF first to estimateTruncationError and then to the moment integrals (and returns it).  The contract
    of estimateTruncationError used there - it returns a number - therefore has a frame: the array it is given is not modified, in any of
    the four basis configurations (Polynomial does not copy its input and changeBasis only reallocates the axes whose basis changes, so the
    configurations differ in what is aliased).  Run with the real Polynomial / Grid code on the M = N = 3 grid."""
    from .C12_boltzmann import make_solver
    from .C16_polynomial import EXT
    from wgvc.interp import enumerate_paths
    fn = "boltzmann.BoltzmannSolver.estimateTruncationError"
    chk.under_contract("boltzmann", "BoltzmannSolver.estimateTruncationError")
    for basisM, basisN in (("Chebyshev", "Chebyshev"), ("Cardinal", "Chebyshev"), ("Chebyshev", "Cardinal"), ("Cardinal", "Cardinal")):
        orig = np.empty((1, 2, 2, 2), dtype=object)
        for idx in np.ndindex(orig.shape):
            orig[idx] = real("dF_" + "".join(map(str, idx)))

        def body(it, basisM=basisM, basisN=basisN, orig=orig):
            bs, grid = make_solver(it, "Spectral", basisM, basisN)
            bs.attrs["offEqParticles"] = bs.attrs["offEqParticles"][:1]
            arr = orig.copy()
            it.assume(Gt(sum(abs(x) for x in orig.reshape(-1)), 0))
            r = it.call_method(bs, "estimateTruncationError", [arr], {})
            return (r, arr), {}
        paths = [p for p in enumerate_paths(body, externals=EXT, config={"fork_abs": False}) if p.outcome == "return"]
        chk.path_count += len(paths)
        if not paths:
            chk.undecided.append(f"estimateTruncationError[{basisM},{basisN}]: no returning path")
            continue
        p = paths[0]
        _, arr = p.value
        same = arr.shape == orig.shape and all(a is b or a == b for a, b in zip(arr.reshape(-1), orig.reshape(-1)))
        chk.vc(f"estimateTruncationError.{basisM}-{basisN}.argument-not-modified", [], sym.to_sym(bool(same)), func=fn, kind="frame")


def c_tmunu(chk):
    fn = "equationOfMotion.EOM.deltaToTmunu"
    NP, NZ = 2, 3
    v = real("velocityMid")
    D = {k: [[real(f"{k}_{i}_{z}") for z in range(NZ)] for i in range(NP)] for k in ("D00", "D02", "D20", "D11")}

    def poly(k):
        return SymObj("Polynomial", "polynomial", label=k, attrs={"coefficients": as_array(D[k])})
    deltas = SymObj("BoltzmannDeltas", "containers", label="deltas",
                    attrs={"Delta00": poly("D00"), "Delta02": poly("D02"), "Delta20": poly("D20"), "Delta11": poly("D11")})
    for index in (0, 2):
        def mk(it, index=index):
            it.assume(Gt(v, -1))
            it.assume(Lt(v, 1))
            return make_eom(NP), [index, as_array(PHI), v, deltas], {}, {}
        (p,) = sel(chk.summarize("equationOfMotion", "EOM.deltaToTmunu", mk, registry=eom_registry()))
        T30, T33 = p.value
        g = sp.sqrt(gammaSq(v))
        u0, u3 = g, g * v
        ub0, ub3 = g * v, g
        s30 = s33 = 0
        for i in range(NP):
            d00, d02, d20, d11 = (D[k][i][index] for k in ("D00", "D02", "D20", "D11"))
            dof = real(f"dof{i}")
            s30 += dof * (d20 * u3 * u0 + d02 * ub3 * ub0 + d11 * (u3 * ub0 + ub3 * u0))
            s33 += dof * (d20 * u3 * u3 + d02 * ub3 * ub3 + 2 * d11 * u3 * ub3)
        chk.vc(f"deltaToTmunu.T30.index{index}", p.pc, Eq(T30, s30), func=fn)
        chk.vc(f"deltaToTmunu.T33.index{index}", p.pc, Eq(T33, s33), func=fn)
        chk.canary(f"deltaToTmunu.T30.index{index}", p.pc, Eq(T30, -s30 + 1), func=fn)
    chk.assume_note("deltaToTmunu is checked for 2 particles and 3 grid points; every summand has the same form, so the sum over any particle list follows")


def c_getdeltas(chk):
    fn = "boltzmann.BoltzmannSolver.getDeltas"
    NP, NZ, NPZ, NPP = 2, 2, 2, 2
    pz = [real(f"pz{j}") for j in range(NPZ)]
    pp = [real(f"pp{k}") for k in range(NPP)]
    dpz = [real(f"dpzdrz{j}") for j in range(NPZ)]
    dpp = [real(f"dppdrp{k}") for k in range(NPP)]
    m2 = [[real(f"msq_{a}_{z}") for z in range(NZ)] for a in range(NP)]
    events = []

    def poly_new(it, cref, args, kwargs):
        o = SymObj("Polynomial", "polynomial", label=it.fresh_name("poly"))
        names = ("coefficients", "grid", "basis", "direction", "endpoints")
        for n, a in zip(names, args):
            o.attrs[n] = a
        o.attrs.update(kwargs)
        it.event(kind="poly-new", obj=o.label, basis=o.attrs.get("basis"), direction=o.attrs.get("direction"),
                 endpoints=o.attrs.get("endpoints"), coefficients=o.attrs.get("coefficients"))
        return o

    def change_basis(it, so, args, kwargs):
        it.event(kind="poly-changeBasis", obj=so.label, basis=args[0])
        so.attrs["basis"] = args[0]

    def integrate(it, so, args, kwargs):
        axis = args[0] if args else kwargs.get("axis")
        w = args[1] if len(args) > 1 else kwargs.get("weight")
        r = SymObj("Polynomial", "polynomial", label=it.fresh_name("moment"))
        it.event(kind="poly-integrate", obj=so.label, axis=axis, weight=w, result=r.label, basis=so.attrs.get("basis"))
        return r
    reg = {"Polynomial.__new__": poly_new, "Polynomial.changeBasis": change_basis, "Polynomial.integrate": integrate,
           "BoltzmannSolver.estimateTruncationError": lambda it, so, a, k: it.fresh_real("truncationError"),
           "BoltzmannSolver.checkLinearization": lambda it, so, a, k: (Opaque("crit1"), Opaque("crit2")),
           "Fields.takeSlice": lambda it, so, a, k: Opaque("fieldSlice"),
           "Particle.msqVacuum": lambda it, so, a, k: as_array(m2[so.attrs["__index__"]]),
           "Grid.getCompactificationDerivatives": lambda it, so, a, k: (Opaque("dxidchi"), as_array(dpz), as_array(dpp)),
           "BoltzmannResults.__new__": lambda it, cref, a, k: SymObj("BoltzmannResults", "results", attrs=dict(k))}

    def mk(it):
        grid = SymObj("Grid", "grid", label="grid", attrs={"pzValues": as_array(pz), "ppValues": as_array(pp),
                                                            "M": NZ + 1, "N": NPZ + 1})
        parts = [SymObj("Particle", "particle", label=f"particle{i}", attrs={"__index__": i}) for i in range(NP)]
        fp = SymObj("Fields", "fields", label="fieldProfiles", attrs={"overFieldPoints": 0})
        bg = SymObj("BoltzmannBackground", "containers", label="background", attrs={"fieldProfiles": fp})
        bs = SymObj("BoltzmannSolver", "boltzmann", label="solver")
        bs.attrs.update(grid=grid, offEqParticles=parts, background=bg, basisM="Chebyshev", basisN="Chebyshev")
        dF = Opaque("deltaF")
        return bs, [dF], {}, {"bs": bs}
    paths = sel(chk.summarize("boltzmann", "BoltzmannSolver.getDeltas", mk, registry=reg))
    if len(paths) != 1:
        chk.undecided.append(f"getDeltas: {len(paths)} returning paths")
        return
    p = paths[0]
    news = [e for e in p.events if e.get("kind") == "poly-new"]
    chg = [e for e in p.events if e.get("kind") == "poly-changeBasis"]
    ints = [e for e in p.events if e.get("kind") == "poly-integrate"]
    ok_struct = (len(news) == 1 and len(chg) == 1 and len(ints) == 4 and chg[0]["obj"] == news[0]["obj"]
                 and all(e["obj"] == news[0]["obj"] for e in ints))
    chk.vc("getDeltas.structure.one-polynomial-four-integrals", p.pc, sym.to_sym(ok_struct), func=fn)
    if not ok_struct:
        return
    n = news[0]
    chk.vc("getDeltas.deviation-polynomial", p.pc,
           sym.to_sym(tuple(n["basis"]) == ("Array", "Chebyshev", "Chebyshev", "Chebyshev") and tuple(n["direction"]) == ("Array", "z", "pz", "pp")
                      and n["endpoints"] is False and isinstance(n["coefficients"], Opaque) and n["coefficients"].label == "deltaF"), func=fn)
    def pos(ev):
        return next(i for i, x in enumerate(p.events) if x is ev)
    # grid values on every polynomial axis before the pointwise weights are applied
    chk.vc("getDeltas.cardinal-basis-on-all-axes", p.pc,
           sym.to_sym(tuple(chg[0]["basis"]) == ("Array", "Cardinal", "Cardinal", "Cardinal")
                      and pos(chg[0]) < min(pos(e) for e in ints)), func=fn)
    res = p.value.attrs["Deltas"]
    order = [res.attrs[k].label for k in ("Delta00", "Delta02", "Delta20", "Delta11")]
    chk.vc("getDeltas.results-in-order", p.pc, sym.to_sym(order == [e["result"] for e in ints]), func=fn)
    fac = {"Delta00": lambda E, z: 1, "Delta02": lambda E, z: z**2, "Delta20": lambda E, z: E**2, "Delta11": lambda E, z: E * z}
    for name, e in zip(("Delta00", "Delta02", "Delta20", "Delta11"), ints):
        chk.vc(f"getDeltas.{name}.axes", p.pc, sym.to_sym(tuple(e["axis"]) == (2, 3)), func=fn)
        w = as_array(e["weight"])
        w = np.broadcast_to(w, (NP, NZ, NPZ, NPP))
        goals = []
        for a in range(NP):
            for z in range(NZ):
                for j in range(NPZ):
                    for k in range(NPP):
                        E = sp.sqrt(m2[a][z] + pz[j]**2 + pp[k]**2)
                        goals.append(Eq(w[a, z, j, k], fac[name](E, pz[j]) * dpz[j] * dpp[k] * pp[k] / (4 * sp.pi**2 * E)))
        facts = p.pc + [Gt(m2[a][z] + pz[j]**2 + pp[k]**2, 0) for a in range(NP) for z in range(NZ) for j in range(NPZ) for k in range(NPP)]
        chk.vc(f"getDeltas.{name}.weight", facts, And(*goals), func=fn)
        chk.canary(f"getDeltas.{name}.weight", facts, Eq(w[0, 0, 0, 1], -fac[name](sp.sqrt(m2[0][0] + pz[0]**2 + pp[1]**2), pz[0]) * dpz[0] * dpp[1] * pp[1]), func=fn)
    chk.assume_note("getDeltas is checked on a 2 particles x 2 x 2 x 2 symbolic grid: the weights are elementwise/broadcast expressions, so each entry has this form for every size")
    chk.assume_note("callee contract (C16): Polynomial.integrate(axes, weight) returns sum over the axes of GCL-weight * weight * grid value; changeBasis is linear")
