"""C07 - results are covariant under a change of units.

Relational obligations on the summaries of the real functions (wgvc.scaling): with every dimensionful input multiplied by
lam**dim, every model/EOS callback rescaled accordingly (homogeneity of the spec functions), for every lam > 0:
    * every output is multiplied by lam**(its dimension)   [dimensionless outputs unchanged],
    * every branch decision is the same in both unit systems.
Covered: Thermodynamics (all EOS functions, setExtrapolate, alpha), Hydrodynamics (junction relations, detonation and deflagration
matching, Jouguet velocity, shock solver residual, boundary constants, temperature mapping), the template model (definitions, vJ, v+,
T-, boundary constants), EOM (wall profile, grid re-mapping, plasma velocity, T33 balance, stress tensor from the moments, the pressure
integrand and the bounds handed to the minimiser, initial wall), WallGoManager (grid and solver construction in units of 1/Tn),
grid maps, finite-difference helper, moment weights.
Absolute tolerances that meet a dimensionful quantity are DECLARED sites (listed as assumptions, not proved harmless).
"""
from __future__ import annotations

import itertools
import numpy as np
import sympy as sp

from wgvc.api import *            # noqa: F401,F403
from wgvc import sym, stubs
from wgvc.builtins_model import as_array
from wgvc.scaling import LAM, scale, covariance_vcs, pc_invariance_vcs, ScaleError
from wgvc.smt import quick_sat
from .common import (PHASES, ENDS, COEFFS, THERMO_STATE, attr_sym, make_thermo, thermo_spec, free_energy_registry, eos_registry,
                     make_hydro)

PROPERTY = "C07"
MIN_OBLIGATIONS = 80

EOS_FUN = {}
for _ph in PHASES:
    for _n, _k in (("f", 4), ("df", 3), ("ddf", 2), ("dddf", 1), ("p", 4), ("dp", 3), ("ddp", 2), ("dddp", 1), ("e", 4), ("de", 3), ("w", 4), ("csq", 0)):
        EOS_FUN[f"{_n}{_ph}"] = ([1], _k)

DECLARED_SITES = []


def declared(site, why):
    DECLARED_SITES.append(f"{site}: {why}")


def check_paths(chk, label, paths, symdims, fundims, outdims, facts=(), func="", values=None, path_facts=None):
    """for every returning path: branch decisions invariant, each output component scales with its dimension"""
    n = 0
    for i, p in enumerate(paths):
        if p.outcome != "return":
            continue
        n += 1
        extra = list(path_facts(p)) if path_facts else []
        pc_invariance_vcs(chk, f"{label}.branches-unit-independent.{i}", list(facts) + extra, p.pc, symdims, fundims, func=func)
        vals = values(p) if values else p.value
        if not isinstance(vals, (tuple, list)):
            vals = [vals]
        for j, (v, k) in enumerate(zip(vals, outdims)):
            if k is None or not isinstance(v, (sp.Basic, int, float)):
                continue
            covariance_vcs(chk, f"{label}.output{j}.scales-as-lam^{k}.{i}", list(facts) + extra + p.pc, v, k, symdims, fundims, func=func)
    if n == 0:
        chk.undecided.append(f"{label}: no returning path")
    else:
        # canary: the first symbolic output does NOT scale with one power more
        for p in paths:
            if p.outcome != "return":
                continue
            vals = values(p) if values else p.value
            vals = vals if isinstance(vals, (tuple, list)) else [vals]
            cand = [(v, k) for v, k in zip(vals, outdims) if k is not None and isinstance(v, sp.Basic) and sym.is_symbolic(v)]
            if cand:
                v, k = cand[0]
                try:
                    sv = scale(v, symdims, fundims)
                    sf = [scale(f, symdims, fundims) for f in list(facts) + p.pc]
                    chk.canary(f"{label}.units", list(facts) + p.pc + sf + [Gt(LAM, 0)], Eq(sv, LAM**(k + 1) * v), func=func)
                except ScaleError:
                    pass
                break


def build(chk):
    chk.assume_note("units covariance is checked per function against declared dimensions of inputs and callbacks (homogeneity of the model's "
                    "potential, masses and equation of state under the change of units is the premise of the property)")
    u_thermo(chk)
    u_hydro(chk)
    u_template(chk)
    u_eom(chk)
    u_manager(chk)
    u_grids(chk)
    for s_ in DECLARED_SITES:
        chk.assume_note("declared absolute-tolerance site (assumed harmless, not proved): " + s_)


# --------------------------------------------------------------------------- Thermodynamics
def u_thermo(chk):
    from .C10_thermodynamics import T
    fn = "thermodynamics.Thermodynamics"
    symdims = {"T": 1, "self.Tnucl": 1}
    for ph in PHASES:
        for e in ENDS:
            symdims[f"self.T{e}{ph}T"] = 1
            symdims[f"self.mu{e}{ph}T"] = 0
            symdims[f"self.epsilon{e}{ph}T"] = 4
            symdims[f"self.a{e}{ph}T"] = 4 - attr_sym(f"mu{e}{ph}T")
    reg = free_energy_registry()
    outd = {"p": 4, "dp": 3, "ddp": 2, "e": 4, "de": 3, "w": 4, "csq": 0}
    for ph in PHASES:
        s = thermo_spec(ph)
        X = f"{ph}T"
        lo, hi = attr_sym(f"TMin{ph}T"), attr_sym(f"TMax{ph}T")
        pre = [Gt(T, 0), Gt(lo, 0), Lt(lo, hi)]

        def mk(it):
            th = make_thermo()
            return th, [T], {}, {}
        sib = dict(reg)
        for name in ("p", "dp", "ddp", "e", "de", "w"):
            sib[f"Thermodynamics.{name}{X}"] = pure_call(lambda so, t, _f=s[name]: _f(t))
        for name in ("p", "dp", "ddp"):
            paths = chk.summarize("thermodynamics", f"Thermodynamics.{name}{X}", mk, registry=reg)
            check_paths(chk, f"{name}{X}", paths, symdims, EOS_FUN, [outd[name]], facts=pre, func=f"{fn}.{name}{X}")
        for name in ("e", "de", "w", "csq"):
            paths = chk.summarize("thermodynamics", f"Thermodynamics.{name}{X}", mk, registry=sib)
            check_paths(chk, f"{name}{X}", paths, symdims, EOS_FUN, [outd[name]], facts=pre, func=f"{fn}.{name}{X}")
    # setExtrapolate: the coefficients it stores have the dimensions the EOS methods assume (mu: 0, a: 4 - mu, epsilon: 4)
    sd = dict(symdims)
    for ph in PHASES:
        for e in ENDS:
            sd[f"self.T{e}{ph}T_traced"] = 1
    reg2 = dict(reg)
    for ph in PHASES:
        s = thermo_spec(ph)
        for name in ("p", "dp", "ddp", "w", "de", "csq"):
            reg2[f"Thermodynamics.{name}{ph}T"] = pure_call(lambda so, t, _f=s[name]: _f(t))
    pre = []
    for ph in PHASES:
        pre += [Gt(real(f"self.TMin{ph}T_traced"), 0), Lt(real(f"self.TMin{ph}T_traced"), real(f"self.TMax{ph}T_traced"))]

    def mk2(it):
        th = make_thermo(traced_suffix="_traced")
        for c in pre:
            it.assume(c)
        return th, [], {}, {"th": th}
    for i, p in enumerate(sel(chk.summarize("thermodynamics", "Thermodynamics.setExtrapolate", mk2, registry=reg2))):
        th = p.state["th"]
        for ph in PHASES:
            for e in ENDS:
                mu_v = th.attrs[f"mu{e}{ph}T"]
                for nm, k in ((f"mu{e}{ph}T", 0), (f"a{e}{ph}T", 4 - sym.to_sym(mu_v)), (f"epsilon{e}{ph}T", 4)):
                    covariance_vcs(chk, f"setExtrapolate.{nm}.dimension.{i}", p.pc, th.attrs[nm], k, sd, EOS_FUN, func=f"{fn}.setExtrapolate")
    H, L = thermo_spec("High"), thermo_spec("Low")
    regA = {}
    for ph in PHASES:
        for name in ("p", "e", "w", "csq"):
            regA[f"Thermodynamics.{name}{ph}T"] = pure_call(lambda so, t, _f=thermo_spec(ph)[name]: _f(t))
    paths = chk.summarize("thermodynamics", "Thermodynamics.alpha", lambda it: (make_thermo(), [T], {}, {}), registry=regA)
    check_paths(chk, "alpha", paths, symdims, EOS_FUN, [0], func=f"{fn}.alpha")


# --------------------------------------------------------------------------- Hydrodynamics
HY_SYM = {"Tnucl": 1, "TMaxHydro": 1, "TMinHydro": 1, "vw": 0, "vpIn": 0, "vJ": 0, "vMin": 0, "rtol": 0, "atol": 0, "Tp": 1, "Tm": 1,
          "template.*": 0, "x0": 0, "x1": 0, "hybr_x*": 0, "Tp0*": 1, "Tm0*": 1, "match.vp": 0, "match.vm": 0, "match.Tp": 1, "match.Tm": 1,
          "iterations*": 0, "function_calls*": 0}
for _ph in PHASES:
    for _e in ENDS:
        HY_SYM[f"T{_e}{_ph}T"] = 1
HY_FUN = dict(EOS_FUN)
HY_FUN.update({"vpvmF": ([1, 1], 0), "vpovmF": ([1, 1], 0), "invMapT": ([0], 1)})


def u_hydro(chk):
    from .C02_junction import hydro_registry, _mdh_blocks, HY
    vw, vpin, Tp, Tm = real("vw"), real("vpIn"), real("Tp"), real("Tm")
    # vpvmAndvpovm
    paths = chk.summarize("hydrodynamics", "Hydrodynamics.vpvmAndvpovm", lambda it: (make_hydro(), [Tp, Tm], {}, {}), registry=eos_registry())
    generic = [p for p in paths if p.outcome == "return" and not any("1e50" in str(c) for c in p.pc)]
    H, L = thermo_spec("High"), thermo_spec("Low")
    # the branch eH == eL multiplies a pressure by the literal 1e50: a declared site
    main = [p for p in sel(paths) if quick_sat(p.pc + [Ne(H["e"](Tp), L["e"](Tm))]) != "unsat"]
    check_paths(chk, "vpvmAndvpovm", main, HY_SYM, HY_FUN, [0, 0], func=f"{HY}.vpvmAndvpovm")
    declared("Hydrodynamics.vpvmAndvpovm", "(pHighT - pLowT) * 1e50 on the measure-zero branch eHighT == eLowT")
    # matchDeton: root and minimiser are temperatures
    sd = dict(HY_SYM)
    sd.update({"root*": 1, "xmin*": 1, "rs*": 1})
    pre = [Gt(vw, 0), Lt(vw, 1)]

    def mk(it):
        for c in pre:
            it.assume(c)
        return make_hydro(), [vw], {}, {}
    paths = [p for p in sel(chk.summarize("hydrodynamics", "Hydrodynamics.matchDeton", mk, registry=hydro_registry(), externals=stubs.EXTERNALS))
             if isinstance(p.value[1], sp.Basic)]
    check_paths(chk, "matchDeton", paths, sd, HY_FUN, [0, 0, 1, 1], func=f"{HY}.matchDeton")
    declared("Hydrodynamics.matchDeton / findJouguetVelocity / solveHydroShock / strongestShock", "xtol=self.atol (dimensionless setting) on root finds in a temperature")
    # matchDeflagOrHyb
    sd2 = dict(HY_SYM)
    pre2 = pre + [Gt(real("Tnucl"), 0), Gt(real("TMaxHydro"), real("TMinHydro")), Gt(real("TMinHydro"), 0)]
    for mode in ("vp-given", "entropy"):
        def mk2(it, mode=mode):
            for c in pre2:
                it.assume(c)
            return make_hydro(), ([vw, vpin] if mode == "vp-given" else [vw]), {}, {}
        paths = sel(chk.summarize("hydrodynamics", "Hydrodynamics.matchDeflagOrHyb", mk2, registry=hydro_registry(),
                                  externals=stubs.EXTERNALS, block_specs=_mdh_blocks()))
        # (entropy mode: v+ is the square root of T-^2 - T+^2 (1 - v-^2); where that is negative the code raises)
        check_paths(chk, f"matchDeflagOrHyb.{mode}", paths, sd2, HY_FUN, [0, 0, 1, 1], func=f"{HY}.matchDeflagOrHyb",
                    path_facts=(lambda p: [Ge(p.value[3]**2 - p.value[2]**2 * (1 - p.value[1]**2), 0), Gt(p.value[3], 0)]) if mode == "entropy" else None)
    # temperature mapping used by the 2x2 solver
    a, b = real("x0"), real("x1")
    paths = chk.summarize("hydrodynamics", "Hydrodynamics._inverseMappingT", lambda it: (make_hydro(), [[a, b]], {}, {}), registry={})
    check_paths(chk, "_inverseMappingT", paths, HY_SYM, HY_FUN, [1, 1], facts=[Gt(real("TMaxHydro"), real("TMinHydro"))], func=f"{HY}._inverseMappingT")
    paths = chk.summarize("hydrodynamics", "Hydrodynamics._mappingT", lambda it: (make_hydro(), [[Tp, Tm]], {}, {}), registry={})
    check_paths(chk, "_mappingT", paths, HY_SYM, HY_FUN, [0, 0], facts=[Gt(real("TMaxHydro"), real("TMinHydro"))], func=f"{HY}._mappingT")
    # boundary constants
    m = {k: real(f"match.{k}") for k in ("vp", "vm", "Tp", "Tm")}
    reg = eos_registry()
    reg["Hydrodynamics.findMatching"] = lambda it, so, a_, k: (m["vp"], m["vm"], m["Tp"], m["Tm"])
    paths = [p for p in sel(chk.summarize("hydrodynamics", "Hydrodynamics.findHydroBoundaries", lambda it: (make_hydro(), [vw], {}, {}), registry=reg))
             if isinstance(p.value[0], sp.Basic) and p.value[0] != 0]
    check_paths(chk, "findHydroBoundaries", paths, HY_SYM, HY_FUN, [4, 4, 1, 1, 0], func=f"{HY}.findHydroBoundaries")
    # shockDE right-hand sides: d xi/dv dimensionless, dT/dv a temperature
    v, xi, T = real("v"), real("xi"), real("T")
    sd3 = dict(HY_SYM)
    sd3.update({"v": 0, "xi": 0, "T": 1})
    paths = chk.summarize("hydrodynamics", "Hydrodynamics.shockDE", lambda it: (make_hydro(), [v, [xi, T]], {}, {}), registry=eos_registry())
    check_paths(chk, "shockDE", paths, sd3, HY_FUN, [0, 1], func=f"{HY}.shockDE")


# --------------------------------------------------------------------------- template model
def u_template(chk):
    from .C06_admissible import make_template
    TQ = "hydrodynamicsTemplateModel.HydrodynamicsTemplateModel"
    sd = {"Tnucl": 1, "cb": 0, "cs2": 0, "cs": 0, "alN": 0, "psiN": 0, "mu": 0, "nu": 0, "wN": 4, "pN": 4, "vJt": 0, "vMint": 0, "rtol": 0, "atol": 0,
          "epsilonT": 4, "vm": 0, "vp": 0, "Tp": 1, "vw": 0, "al": 0, "match.vp": 0, "match.vm": 0, "match.Tp": 1, "match.Tm": 1}
    vm, vp, Tp, vw, al = real("vm"), real("vp"), real("Tp"), real("vw"), real("al")
    pos = [Gt(real("Tnucl"), 0), Gt(real("mu"), 1), Gt(real("nu"), 1), Gt(real("psiN"), 0), Gt(real("wN"), 0), Gt(real("cb"), 0), Lt(real("cb"), 1),
           Gt(vm, 0), Lt(vm, 1), Gt(vp, 0), Lt(vp, 1), Gt(Tp, 0)]

    def mk_(args):
        def mk(it):
            for c in pos:
                it.assume(c)
            return make_template(), args, {}, {}
        return mk
    M_ = "hydrodynamicsTemplateModel"
    check_paths(chk, "template._findTm", chk.summarize(M_, "HydrodynamicsTemplateModel._findTm", mk_([vm, vp, Tp])), sd, {}, [1], func=f"{TQ}._findTm")
    check_paths(chk, "template.getVp", chk.summarize(M_, "HydrodynamicsTemplateModel.getVp", mk_([vm, al])), sd, {}, [0], func=f"{TQ}.getVp")
    check_paths(chk, "template.findJouguetVelocity", chk.summarize(M_, "HydrodynamicsTemplateModel.findJouguetVelocity", mk_([])), sd, {}, [0],
                func=f"{TQ}.findJouguetVelocity")
    m = {k: real(f"match.{k}") for k in ("vp", "vm", "Tp", "Tm")}
    reg = {"HydrodynamicsTemplateModel.findMatching": lambda it, so, a, k: (m["vp"], m["vm"], m["Tp"], m["Tm"])}
    paths = [p for p in sel(chk.summarize(M_, "HydrodynamicsTemplateModel.findHydroBoundaries", mk_([vw]), registry=reg))
             if isinstance(p.value[0], sp.Basic) and p.value[0] != 0]
    check_paths(chk, "template.findHydroBoundaries", paths, sd, {}, [4, 4, 1, 1, 0], func=f"{TQ}.findHydroBoundaries")
    # __init__: alN, psiN, sound speeds, mu, nu dimensionless; wN, pN pressures
    T0 = real("Tnucl")
    H = thermo_spec("High")

    def mk2(it):
        th = SymObj("Thermodynamics", "thermodynamics", label="thermodynamics", attrs={"Tnucl": T0})
        t = SymObj("HydrodynamicsTemplateModel", M_, label="template")
        return t, [th], {}, {"t": t}
    reg2 = eos_registry()
    reg2["HydrodynamicsTemplateModel.findJouguetVelocity"] = lambda it, so, a, k: real("vJt")
    reg2["HydrodynamicsTemplateModel.minVelocity"] = lambda it, so, a, k: real("vMint")
    paths = sel(chk.summarize(M_, "HydrodynamicsTemplateModel.__init__", mk2, registry=reg2))
    check_paths(chk, "template.__init__", paths, sd, EOS_FUN, [0, 0, 0, 0, 0, 0, 4, 4, 4],
                values=lambda p: [p.state["t"].attrs[k] for k in ("alN", "psiN", "cb2", "cs2", "mu", "nu", "wN", "pN", "epsilon")], func=f"{TQ}.__init__")


# --------------------------------------------------------------------------- EOM
def u_eom(chk):
    from .C04_plasma import make_eom, eom_registry, PHI, DPHI, T as Tsym, EOMQ
    from .C09_pressure import wall_params, LOW, HIGH, REG_FIELDS, NF
    sd = {"T": 1, "s1": 4, "s2": 4, "c1": 4, "c2": 4, "Tnucl": 1, "Tplus": 1, "Tminus": 1, "velocityMid": 0, "Tout30": 4, "Tout33": 4,
          "phi0": 1, "phi1": 1, "dphi0": 2, "dphi1": 2, "errTol": 0, "z0": -1, "z1": -1, "dof*": 0}
    for f in range(NF):
        sd.update({f"width{f}": -1, f"offset{f}": 0, f"vevLow{f}": 1, f"vevHigh{f}": 1})
    fd = {"Veff": ([1, 1, 1], 4), "dVeff_dT": ([1, 1, 1], 3), "msqVacuum0": ([1, 1], 2), "msqVacuum1": ([1, 1], 2)}
    s1, s2 = real("s1"), real("s2")
    # plasmaVelocity and the T33 balance
    paths = chk.summarize("equationOfMotion", "EOM.plasmaVelocity", lambda it: (make_eom(), [as_array(PHI), Tsym, s1], {}, {}), registry=eom_registry())
    check_paths(chk, "plasmaVelocity", paths, sd, fd, [0], facts=[Ne(s1, 0)], func=f"{EOMQ}.plasmaVelocity")
    paths = chk.summarize("equationOfMotion", "EOM.temperatureProfileEqLHS",
                          lambda it: (make_eom(), [as_array(PHI), as_array(DPHI), Tsym, s1, s2], {}, {}), registry=eom_registry())
    check_paths(chk, "temperatureProfileEqLHS", paths, sd, fd, [4], facts=[Ne(s1, 0)], func=f"{EOMQ}.temperatureProfileEqLHS")
    # wallProfile: fields scale like a field, the gradient like field/length
    z0, z1 = real("z0"), real("z1")
    paths = sel(chk.summarize("equationOfMotion", "EOM.wallProfile",
                              lambda it: (make_eom(), [as_array([z0, z1]), as_array([LOW]), as_array([HIGH]), wall_params()], {}, {}), registry=REG_FIELDS))
    check_paths(chk, "wallProfile", paths, sd, fd, [1, 1, 1, 1, 2, 2, 2, 2], func=f"{EOMQ}.wallProfile",
                values=lambda p: list(as_array(p.value[0]).reshape(-1)) + list(as_array(p.value[1]).reshape(-1)))
    # _updateGrid: everything handed to the grid is a length
    sd2 = dict(sd)
    sd2.update({"grid.smoothing": 0, "grid.ratioPointsWall": 0, "meanFreePathScale": -1})
    widths = [real("width0"), real("width1")]
    offsets = [real("offset0"), real("offset1")]
    vmid = real("velocityMid")
    for off_eq in (False, True):
        def mk(it, off_eq=off_eq):
            grid = SymObj("Grid3Scales", "grid3Scales", label="grid", attrs={"smoothing": real("grid.smoothing"), "ratioPointsWall": real("grid.ratioPointsWall")})
            eom = SymObj("EOM", "equationOfMotion", label="eom", attrs={"grid": grid, "meanFreePathScale": real("meanFreePathScale"), "includeOffEq": off_eq})
            wp = SymObj("WallParams", "containers", label="wallParams", attrs={"widths": as_array(widths), "offsets": as_array(offsets)})
            for c in [Gt(w, 0) for w in widths] + [Gt(vmid, -1), Lt(vmid, 1), Gt(real("grid.smoothing"), 0), Gt(real("grid.ratioPointsWall"), 0),
                                                   Lt(real("grid.ratioPointsWall"), 1), Gt(real("meanFreePathScale"), 0)]:
                it.assume(c)
            return eom, [wp, vmid], {}, {}

        def change(it, so, a, k):
            it.event(kind="contract-call", name="changePositionFalloffScale", args=list(a))
        paths = sel(chk.summarize("equationOfMotion", "EOM._updateGrid", mk, registry={"Grid3Scales.changePositionFalloffScale": change}))
        check_paths(chk, f"_updateGrid.{'offeq' if off_eq else 'eq'}", paths, sd2, fd, [-1, -1, -1, -1], func=f"{EOMQ}._updateGrid",
                    values=lambda p: [e for e in p.events if e.get("name") == "changePositionFalloffScale"][0]["args"])
    # initial wall of the deflagration search: widths 5/Tn, offsets 0
    from .C01_wallsolver import make_eom as make_eom01, registry as reg01
    reg = reg01()
    reg["EOM.solveWall"] = lambda it, so, a, k: (it.event(kind="contract-call", name="solveWall", args=list(a)), Opaque("results"))[1]
    sd3 = {"Tnucl": 1, "vMin": 0, "vJ": 0, "fastestDeflag": 0}
    paths = sel(chk.summarize("equationOfMotion", "EOM.findWallVelocityDeflagrationHybrid", lambda it: (make_eom01(), [], {}, {}), registry=reg))

    def entry_vals(p):
        c = [e for e in p.events if e.get("name") == "solveWall"][0]["args"]
        return [c[0], c[1]] + list(as_array(c[2].attrs["widths"]).reshape(-1)) + list(as_array(c[2].attrs["offsets"]).reshape(-1))
    check_paths(chk, "findWallVelocityDeflagrationHybrid", paths, sd3, {}, [0, 0, -1, -1, 0, 0], func=f"{EOMQ}.findWallVelocityDeflagrationHybrid",
                values=entry_vals, facts=[Gt(real("Tnucl"), 0)])
    # the bounds handed to the Nelder-Mead minimiser have the dimensions of the parameters they bound
    u_bounds(chk)
    declared("EOM.solveWall", "pressAbsErrTol = 1e-8 (absolute pressure tolerance) for the pressure evaluations at the ends of the window")
    declared("EOM.findPlasmaProfilePoint", "abs(Tnucl - Tplus) < 1e-10 (detonation test) and xtol=1e-10 on a temperature")
    u_declared_site_plasma_point(chk)


def u_declared_site_plasma_point(chk):
    """The declared absolute-tolerance site of findPlasmaProfilePoint is what the declaration says: the ONLY comparison of the temperature
    difference T+ - Tn with anything is the detonation test against the literal 1e-10 (harmless: it only has to separate T+ == Tn from
    T+ > Tn).  A larger or configurable threshold there makes the branch - and with it the wall velocity - depend on the unit system."""
    from . import C04_plasma as c4
    from wgvc.api import loop_spec
    fn = "equationOfMotion.EOM.findPlasmaProfilePoint"
    c1, c2, vmid, Tp, Tm = real("c1"), real("c2"), real("velocityMid"), real("Tplus"), real("Tminus")
    reg = c4.eom_registry()
    reg["EOM.temperatureProfileEqLHS"] = lambda it, so, a, k: c4.LHS(a[2], a[3], a[4])
    reg["EOM.plasmaVelocity"] = lambda it, so, a, k: specfun("vPlasmaF")(a[1], a[2])
    reg["EOM.deltaToTmunu"] = lambda it, so, a, k: (real("Tout30"), real("Tout33"))
    havoc = {"tempAtMinimum": lambda it: it.fresh_real("tempAtMinimum"), "testTemp": lambda it: it.fresh_real("testTemp"), "i": lambda it: it.fresh_int("i")}
    loops = {("EOM.findPlasmaProfilePoint", 0): loop_spec(lambda it, e: [sp.true], havoc)}

    def mk(it):
        for c in (Gt(Tp, 0), Gt(Tm, 0)):
            it.assume(c)
        return c4.make_eom(), [integer("index"), c1, c2, vmid, as_array(c4.PHI), as_array(c4.DPHI), Opaque("deltas"), Tp, Tm], {}, {}
    paths = chk.summarize("equationOfMotion", "EOM.findPlasmaProfilePoint", mk, registry=reg, externals=stubs.EXTERNALS, loop_specs=loops, record=False)
    Tn = real("Tnucl")
    allowed = Lt(sp.Abs(Tn - Tp), sym.R(1, 10**10))
    seen, bad = 0, []
    for p in paths:
        for atom in p.pc:
            for rel in sym.to_sym(atom).atoms(sp.core.relational.Relational):
                if Tn in rel.free_symbols:
                    seen += 1
                    if not (rel == allowed or rel == sp.Not(allowed) or rel.canonical == allowed.canonical or sp.Not(rel).canonical == allowed.canonical):
                        bad.append(str(rel))
    chk.vc("findPlasmaProfilePoint.declared-absolute-tolerance-is-the-literal-1e-10", [], sym.to_sym(seen > 0 and not bad), func=fn, kind="units",
           meta={"comparisons_with_Tnucl": seen, "undeclared": sorted(set(bad))[:5]})


def u_bounds(chk):
    from .C09_pressure import c_pressure_tail
    # re-run the pressure tail with a recording minimiser (C09's setup) and compare x0 with the bounds entry by entry
    import contracts.C09_pressure as c9
    from wgvc.api import Check
    probe = Check("C07-probe")
    captured = {}
    orig_vc = probe.vc
    c9.c_pressure_tail(probe)          # builds the summary once; we only need the recorded minimise event
    chk.path_count += probe.path_count
    chk.functions.update(probe.functions)
    ev = getattr(c9, "LAST_MINIMIZE", None)
    if ev is None:
        chk.undecided.append("pressure tail: minimiser call not captured")
        return
    # Termination rule of the minimiser.  The assumed contract "minimize returns the minimiser of the action, whatever the units" has
    # a precondition on the stopping rule, because scipy's default tolerances are ABSOLUTE numbers while the arguments (widths, a
    # length) and the action (mass^3) are dimensionful:
    #   * Nelder-Mead stops only when BOTH the simplex size (xatol) and the spread of the function values (fatol) are below their
    #     thresholds; under a change of units by lam one of the two tests becomes stricter (lengths scale with 1/lam, the action with
    #     lam^3), never both looser, so the stopping point is at least as converged in one of the two measures: accepted, and declared;
    #   * Powell uses relative xtol/ftol: accepted;
    #   * the gradient-based methods (L-BFGS-B, BFGS, CG, TNC, SLSQP, trust-constr, ...) stop as soon as ONE absolute test (gtol on a
    #     gradient of dimension mass^4, or ftol with max(|f|, 1)) passes: in small units they stop at the starting point. Not covariant.
    #   * explicit tol/options: not analysed -> undecided.
    method = ev.get("method")
    fn = "equationOfMotion.EOM._intermediatePressureResults"
    if ev.get("tol") is not None or ev.get("options") is not None or ev.get("other"):
        chk.undecided.append(f"_intermediatePressureResults: minimiser called with explicit tolerances/options ({ev.get('other')}): stopping rule not analysed")
    elif method in ("Nelder-Mead", "Powell"):
        chk.vc("_intermediatePressureResults.minimiser.stopping-rule-is-unit-safe", [], sp.true, func=fn, kind="units", meta={"method": method})
        declared("EOM._intermediatePressureResults", "Nelder-Mead default xatol = fatol = 1e-4 (absolute; both must hold, see contracts/C07_units.py u_bounds)")
    elif method in ("L-BFGS-B", "BFGS", "CG", "TNC", "SLSQP", "trust-constr", "Newton-CG", "COBYLA", "COBYQA", "dogleg", "trust-ncg", "trust-exact", "trust-krylov", None):
        chk.vc("_intermediatePressureResults.minimiser.stopping-rule-is-unit-safe", [], sp.false, func=fn, kind="units",
               meta={"method": str(method), "reason": "default stopping rule passes as soon as one ABSOLUTE tolerance (gtol / ftol / rhobeg..) is met; "
                     "gradient of the action has dimension mass^4, lengths 1/mass"})
    else:
        chk.undecided.append(f"_intermediatePressureResults: minimiser method {method!r} not analysed")
    x0 = as_array(ev["x0"]).reshape(-1)
    lb = as_array(ev["lb"]).reshape(-1)
    ub = as_array(ev["ub"]).reshape(-1)
    dims = [-1] * c9.NF + [0] * (c9.NF - 1)
    sd = {"Tnucl": 1, "wmin": 0, "wmax": 0, "omin": 0, "omax": 0, "multiplier": 0}
    for f in range(c9.NF):
        sd.update({f"width{f}_in": -1, f"offset{f}_in": 0})
    ok = len(x0) == len(dims) == len(lb) == len(ub)
    chk.vc("_intermediatePressureResults.bounds.shape", [], sym.to_sym(bool(ok)), func=fn, kind="units")
    if ok:
        for j, k in enumerate(dims):
            covariance_vcs(chk, f"_intermediatePressureResults.lower-bound{j}.has-dimension-of-parameter", ev["pc"] + [Gt(real("Tnucl"), 0)], lb[j], k, sd, {}, func=fn)
            covariance_vcs(chk, f"_intermediatePressureResults.upper-bound{j}.has-dimension-of-parameter", ev["pc"] + [Gt(real("Tnucl"), 0)], ub[j], k, sd, {}, func=fn)


# --------------------------------------------------------------------------- manager
def u_manager(chk):
    fn2 = "manager.WallGoManager.buildGrid"
    w0, mf, T0, N_, M_ = real("wallThicknessIni"), real("meanFreePathScale"), real("Tnucl"), integer("gridN"), integer("gridM")
    sm, rr = real("grid.smoothing"), real("grid.ratioPointsWall")
    sd = {"wallThicknessIni": 0, "meanFreePathScale": 0, "Tnucl": 1, "grid.smoothing": 0, "grid.ratioPointsWall": 0, "momentumScale": 1}

    def g3new(it, cref, a, k):
        it.event(kind="contract-call", name="Grid3Scales", args=list(a))
        return SymObj("Grid3Scales", "grid3Scales", label=it.fresh_name("grid3"))

    def mk2(it):
        for c in (Gt(w0, 0), Gt(mf, 0), Gt(T0, 0), Gt(sm, 0), Gt(rr, 0), Lt(rr, 1)):
            it.assume(c)
        cfg = SymObj(None, None, label="config", attrs={"configGrid": SymObj(None, None, label="configGrid", attrs={
            "momentumGridSize": 11, "spatialGridSize": M_, "ratioPointsWall": rr, "smoothing": sm})})
        man = SymObj("WallGoManager", "manager", label="manager", attrs={"config": cfg,
                     "phasesAtTn": SymObj("PhaseInfo", "containers", label="phasesAtTn", attrs={"temperature": T0})})
        return man, [w0, mf, real("momentumScale")], {}, {}
    paths = sel(chk.summarize("manager", "WallGoManager.buildGrid", mk2, registry={"Grid3Scales.__new__": g3new}))
    check_paths(chk, "buildGrid", paths, sd, {}, [None, None, -1, -1, -1, 1, 0, 0], func=fn2,
                values=lambda p: [e for e in p.events if e.get("name") == "Grid3Scales"][0]["args"])


# --------------------------------------------------------------------------- grids
def u_grids(chk):
    from .C17_grids import make_grid, make_grid3, GRID_INV, G3_INV, CUBE, chi, rz, rp
    sd = {"chi": 0, "rz": 0, "rp": 0, "positionFalloff": -1, "momentumFalloffT": 1, "M": 0, "N": 0, "tailLengthInside": -1, "tailLengthOutside": -1,
          "wallThickness": -1, "ratioPointsWall": 0, "smoothing": 0, "wallCenter": -1, "aIn": 0, "aOut": 0}
    for cls, module, mko, pre in (("Grid", "grid", make_grid, GRID_INV + CUBE),
                                  ("Grid3Scales", "grid3Scales", make_grid3, G3_INV + CUBE + [Gt(real("aIn"), 0), Gt(real("aOut"), 0)])):
        def mk(it, mko=mko, pre=pre):
            for c in pre:
                it.assume(c)
            return mko(), [chi, rz, rp], {}, {}
        for meth in ("decompactify", "compactificationDerivatives"):
            paths = chk.summarize(module, f"{cls}.{meth}", mk)
            check_paths(chk, f"{cls}.{meth}", paths, sd, {}, [-1, 1, 1], func=f"{module}.{cls}.{meth}")
