"""C01 - the reported wall velocity is a bracketed zero of the total pressure.

EOM.wallPressure is taken by contract: a function of its arguments (same arguments, same results) that returns
(pressure, wallParams, boltzmannResults, boltzmannBackground, hydroResults) and writes the two convergence flags.
Obligations on EOM.solveWall / findWallVelocityDeflagrationHybrid / findWallVelocityDetonation, per path:
  1. brentq is given [vMin', vMax] with pressure(vMin') <= 0 <= pressure(vMax), xtol == errTol, and a function that equals the
     wall pressure at every velocity strictly inside the bracket;
  2. success with a velocity => converged root in the window, flags of the LAST pressure evaluation true, temperatures in range,
     wall parameters off their bounds, DETONATION iff velocity > vJ;
  3. every datum in the result comes from the last pressure evaluation, made AT the returned velocity;
  4. RUNAWAY => pressure at the top of the window negative and no velocity; 5. not success => ERROR;
  6. no solver state of an earlier call is read before it is rewritten (stale-state obligations).
"""
from __future__ import annotations

import numpy as np
import sympy as sp

from wgvc.api import *            # noqa: F401,F403
from wgvc import sym, stubs, source
from wgvc.builtins_model import as_array
from wgvc.smt import quick_sat
from .C04_plasma import EOMQ

PROPERTY = "C01"
MODULE = "equationOfMotion"
MIN_OBLIGATIONS = 40
NF = 2
vLTE = real("vwLTE")
vJ = real("vJ")


def make_eom():
    hydro = SymObj("Hydrodynamics", "hydrodynamics", label="hydro", open_=True)
    hydro.attrs.update(vJ=vJ, vMin=real("vMin"), TMinLowT=real("TMinLowT"), TMaxLowT=real("TMaxLowT"),
                       TMinHighT=real("TMinHighT"), TMaxHighT=real("TMaxHighT"), Tnucl=real("Tnucl"),
                       doesPhaseTraceLimitvmax=[boolean("limH"), boolean("limL")],
                       template=SymObj("HydrodynamicsTemplateModel", "hydrodynamicsTemplateModel", label="template", open_=True))
    thermo = SymObj("Thermodynamics", "thermodynamics", label="thermo", attrs={"Tnucl": real("Tnucl")})
    eom = SymObj("EOM", MODULE, label="eom")
    eom.attrs.update(hydrodynamics=hydro, thermo=thermo, nbrFields=NF, includeOffEq=False, errTol=real("errTol"),
                     pressRelErrTol=real("pressRelErrTol"), wallThicknessBounds=(real("wmin"), real("wmax")),
                     wallOffsetBounds=(real("omin"), real("omax")),
                     pressAbsErrTol=Stale("EOM.pressAbsErrTol"), successTemperatureProfile=Stale("EOM.successTemperatureProfile"),
                     successWallPressure=Stale("EOM.successWallPressure"), maxIterations=integer("maxIterations"))
    return eom


def params(tag):
    return SymObj("WallParams", "containers", label=f"wallParams.{tag}",
                  attrs={"widths": as_array([real(f"w{f}.{tag}") for f in range(NF)]),
                         "offsets": as_array([real(f"o{f}.{tag}") for f in range(NF)])})


def bres(tag):
    return SymObj("BoltzmannResults", "results", label=f"boltzmannResults.{tag}",
                  attrs={k: real(f"{k}.{tag}") for k in ("deltaF", "Deltas", "truncationError", "linearizationCriterion1", "linearizationCriterion2")})


def _key(v):
    if isinstance(v, SymObj):
        return (v.cls,) + tuple((k, _key(x)) for k, x in sorted(v.attrs.items()))
    if isinstance(v, np.ndarray):
        return tuple(_key(x) for x in v.reshape(-1))
    if isinstance(v, (list, tuple)):
        return tuple(_key(x) for x in v)
    if isinstance(v, sp.Basic):
        return sp.srepr(v)
    return repr(v)


def registry():
    def wall_pressure(it, so, args, kwargs):
        names = ("wallVelocity", "wallParams", "atol", "rtol", "boltzmannResultsInput")
        a = dict(zip(names, args))
        a.update(kwargs)
        for n in names:
            a.setdefault(n, None)
        tol = so.attrs.get("pressAbsErrTol")
        if a["atol"] is None and isinstance(tol, Stale):
            it.oblige("no-read-of-stale-state.EOM.pressAbsErrTol", sp.false, kind="frame")
        key = _key([a[n] for n in names] + [tol if a["atol"] is None else None])
        cache = it.__dict__.setdefault("_wp_cache", {})
        calls = it.__dict__.setdefault("_wp_calls", [])
        if key in cache:
            rec = cache[key]
        else:
            n = len(cache)
            rec = dict(n=n, vw=a["wallVelocity"], P=it.fresh_real(f"P{n}"), wp=params(f"r{n}"), br=bres(f"r{n}"),
                       bb=SymObj("BoltzmannBackground", "containers", label=f"background.r{n}",
                                 attrs={k: real(f"{k}.r{n}") for k in ("velocityProfile", "fieldProfiles", "temperatureProfile")}),
                       hr=SymObj("HydroResults", "results", label=f"hydroResults.r{n}",
                                 attrs={"temperaturePlus": real(f"Tplus.r{n}"), "temperatureMinus": real(f"Tminus.r{n}"),
                                        "velocityJouguet": so.attrs["hydrodynamics"].attrs["vJ"]}),
                       okT=it.fresh_bool(f"successTemperatureProfile.r{n}"), okP=it.fresh_bool(f"successWallPressure.r{n}"), args=a)
            cache[key] = rec
        # frame of wallPressure: the two flags (and the shared grid, which it re-maps before use)
        so.attrs["successTemperatureProfile"] = rec["okT"]
        so.attrs["successWallPressure"] = rec["okP"]
        calls.append(rec)
        it.event(kind="wallPressure", rec=rec, seq=len(calls) - 1)
        return (rec["P"], rec["wp"], rec["br"], rec["bb"], rec["hr"])
    return {"EOM.wallPressure": wall_pressure,
            "Hydrodynamics.findvwLTE": lambda it, so, a, k: vLTE,
            "Hydrodynamics.fastestDeflag": lambda it, so, a, k: real("fastestDeflag"),
            "EOM.getBoltzmannFiniteDifference": lambda it, so, a, k: bres("fd")}


ASSUMED_WP = ("assumed contract of EOM.wallPressure: its results are a function of its arguments and of pressAbsErrTol only (deterministic "
              "iteration on a grid that it re-maps before use); it writes successWallPressure and successTemperatureProfile and nothing else of the EOM")

LAST = lambda p: [e["rec"] for e in p.events if e.get("kind") == "wallPressure"]      # noqa: E731


def loop():
    names = ("pressureMin", "wallParamsMin", "boltzmannResultsMin", "boltzmannBackgroundMin", "hydroResultsMin")

    def inv(it, envv):
        calls = it.__dict__.get("_wp_calls", [])
        vmin = envv.lookup("wallVelocityMin")
        # the *Min variables are the results of a pressure evaluation made at the current wallVelocityMin
        rec = next((r for r in reversed(calls) if r["P"] is envv.lookup("pressureMin")), None)
        structural = rec is not None and all(envv.lookup(n) is rec[k] for n, k in zip(names, ("P", "wp", "br", "bb", "hr")))
        guess_ok = rec is not None and rec["args"]["wallParams"] is envv.lookup("wallParamsGuess")
        return [sym.to_sym(bool(structural and guess_ok)), Eq(rec["vw"], vmin) if rec else sp.false,
                Lt(vmin, envv.lookup("wallVelocityMax")), Ge(vmin, real("vmin.in"))]

    def havoc_all(it):
        v = it.fresh_real("wallVelocityMin.k")
        return v
    # havoc: a fresh lower velocity together with a fresh pressure evaluation made there (ghost call)
    state = {}

    def h_v(it):
        state["v"] = it.fresh_real("wallVelocityMin.k")
        return state["v"]

    def mk(field):
        def f(it):
            if "rec" not in state or state.get("owner") is not it:
                n = len(it.__dict__.setdefault("_wp_cache", {}))
                guess = state["guess"](it)
                rec = dict(n=n, vw=state["v"], P=it.fresh_real(f"P{n}"), wp=params(f"r{n}"), br=bres(f"r{n}"),
                           bb=SymObj("BoltzmannBackground", "containers", label=f"background.r{n}",
                                     attrs={k: real(f"{k}.r{n}") for k in ("velocityProfile", "fieldProfiles", "temperatureProfile")}),
                           hr=SymObj("HydroResults", "results", label=f"hydroResults.r{n}",
                                     attrs={"temperaturePlus": real(f"Tplus.r{n}"), "temperatureMinus": real(f"Tminus.r{n}"), "velocityJouguet": vJ}),
                           okT=it.fresh_bool(f"successTemperatureProfile.r{n}"), okP=it.fresh_bool(f"successWallPressure.r{n}"),
                           args={"wallVelocity": state["v"], "wallParams": guess, "atol": None, "rtol": None, "boltzmannResultsInput": None})
                it._wp_cache[("ghost", n)] = rec
                it.__dict__.setdefault("_wp_calls", []).append(rec)
                it.event(kind="wallPressure", rec=rec, seq=len(it._wp_calls) - 1, ghost=True)
                eom = state["eom"](it)
                eom.attrs["successTemperatureProfile"] = rec["okT"]
                eom.attrs["successWallPressure"] = rec["okP"]
                state["rec"], state["owner"] = rec, it
            return state["rec"][field]
        return f
    havoc = {"wallVelocityMin": h_v, "pressureMin": mk("P"), "wallParamsMin": mk("wp"), "boltzmannResultsMin": mk("br"),
             "boltzmannBackgroundMin": mk("bb"), "hydroResultsMin": mk("hr")}
    return inv, havoc, state


def build(chk):
    chk.assume_note(ASSUMED_WP)
    c_solveWall(chk)
    c_deflag_entry(chk)
    c_manager(chk)
    c_frames(chk)
    c_detonation(chk)
    c_wallPressure_body(chk)
    c_getNextPressure(chk)


def c_solveWall(chk):
    fn = f"{EOMQ}.solveWall"
    vmin_in, vmax = real("vmin.in"), real("vmax.in")
    guess = params("guess")
    inv, havoc, state = loop()
    holder = {}
    state["guess"] = lambda it: holder[id(it)][1]
    state["eom"] = lambda it: holder[id(it)][0]
    from wgvc.api import loop_spec as _ls

    def lspec(it, st, envv, clo):
        # allow the early `return results` inside the loop: it is a real path (reported as ERROR)
        return _ls(inv, havoc)(it, st, envv, clo)
    loops = {("EOM.solveWall", 0): lspec}

    def mk(it):
        eom = make_eom()
        g = params("guess")
        holder[id(it)] = (eom, g)
        for c in (Gt(vmin_in, 0), Lt(vmin_in, vmax), Lt(vmax, 1), Gt(real("errTol"), 0), Gt(real("Tnucl"), 0)):
            it.assume(c)
        return eom, [vmin_in, vmax, g], {}, {"eom": eom}
    paths = chk.summarize(MODULE, "EOM.solveWall", mk, registry=registry(), externals=stubs.EXTERNALS, loop_specs=loops)
    rets = sel(paths)
    if not rets:
        chk.undecided.append("solveWall: no returning path")
    kinds = {}
    for i, p in enumerate(rets):
        res = p.value
        a = res.attrs
        stype = a.get("solutionType")
        succ = a.get("success")
        calls = LAST(p)
        tname = stype.name if isinstance(stype, EnumVal) else "?"
        kinds[tname] = kinds.get(tname, 0) + 1
        # 5. not success => ERROR
        if succ is False:
            chk.vc(f"solveWall.unsuccessful-is-error.{i}", p.pc, sym.to_sym(tname == "ERROR"), func=fn)
        if succ is True and tname == "RUNAWAY":
            top = [r for r in calls if r["vw"] is vmax or r["vw"] == vmax]
            chk.vc(f"solveWall.runaway.{i}", p.pc,
                   And(sym.to_sym(a.get("wallVelocity") is None and len(top) >= 1), Lt(top[0]["P"], 0) if top else sp.false), func=fn)
            chk.vc(f"solveWall.runaway.data-from-top-evaluation.{i}", p.pc,
                   sym.to_sym(bool(top) and a["wallWidths"] is top[0]["wp"].attrs["widths"] and a["temperaturePlus"] is top[0]["hr"].attrs["temperaturePlus"]), func=fn)
            continue
        if succ is True and tname in ("DEFLAGRATION", "DETONATION"):
            rs = [e for e in p.events if e.get("kind") == "root_scalar"]
            if len(rs) != 1 or "root" not in rs[0]:
                chk.undecided.append("solveWall: success without a root find")
                continue
            e = rs[0]
            last = calls[-1]
            root = e["root"]
            # 2.
            chk.vc(f"solveWall.success.velocity-is-converged-root.{i}", p.pc, And(Eq(a["wallVelocity"], root), e["converged"]), func=fn)
            chk.vc(f"solveWall.success.in-window.{i}", p.pc, And(Ge(root, vmin_in), Le(root, vmax)), func=fn)
            chk.vc(f"solveWall.success.flags-of-last-evaluation.{i}", p.pc, And(last["okT"], last["okP"]), func=fn)
            chk.vc(f"solveWall.success.temperatures-in-range.{i}", p.pc,
                   And(Ge(a["temperatureMinus"], real("TMinLowT")), Le(a["temperatureMinus"], real("TMaxLowT")),
                       Ge(a["temperaturePlus"], real("TMinHighT")), Le(a["temperaturePlus"], real("TMaxHighT"))), func=fn)
            ww, oo = as_array(a["wallWidths"]).reshape(-1), as_array(a["wallOffsets"]).reshape(-1)
            Tn = real("Tnucl")
            chk.vc(f"solveWall.success.parameters-off-bounds.{i}", p.pc,
                   And(*[And(Ne(w_, real("wmin") / Tn), Ne(w_, real("wmax") / Tn)) for w_ in ww],
                       *[And(Ne(o_, real("omin")), Ne(o_, real("omax"))) for o_ in oo]), func=fn)
            chk.vc(f"solveWall.success.type.{i}", p.pc,
                   And(Implies(Gt(root, vJ), sym.to_sym(tname == "DETONATION")), Implies(Le(root, vJ), sym.to_sym(tname == "DEFLAGRATION"))), func=fn)
            # 3. data of the last evaluation, made at the root
            same = (a["wallWidths"] is last["wp"].attrs["widths"] and a["wallOffsets"] is last["wp"].attrs["offsets"]
                    and a["temperaturePlus"] is last["hr"].attrs["temperaturePlus"] and a["temperatureMinus"] is last["hr"].attrs["temperatureMinus"]
                    and a["velocityJouguet"] is last["hr"].attrs["velocityJouguet"]
                    and a["temperatureProfile"] is last["bb"].attrs["temperatureProfile"] and a["velocityProfile"] is last["bb"].attrs["velocityProfile"]
                    and a["fieldProfiles"] is last["bb"].attrs["fieldProfiles"] and a["deltaF"] is last["br"].attrs["deltaF"]
                    and a["Deltas"] is last["br"].attrs["Deltas"])
            chk.vc(f"solveWall.success.data-from-last-evaluation.{i}", p.pc, sym.to_sym(bool(same)), func=fn)
            chk.vc(f"solveWall.success.last-evaluation-at-root.{i}", p.pc, Eq(last["vw"], root), func=fn)
            chk.vc(f"solveWall.success.lte-velocity.{i}", p.pc, Eq(a["wallVelocityLTE"], vLTE), func=fn)
            # 1. the bracket and the function
            chk.vc(f"solveWall.brentq.settings.{i}", p.pc,
                   And(sym.to_sym(e["method"] == "brentq"), Eq(e["xtol"], real("errTol")), Eq(e["b"], vmax), Ge(e["a"], vmin_in), Lt(e["a"], e["b"])), func=fn)
            chk.vc(f"solveWall.brentq.bracket-signs.{i}", p.pc, And(Le(e["fa"], 0), Ge(e["fb"], 0)), func=fn)
            lo_calls = [r for r in calls if r["vw"] is e["a"] or r["vw"] == e["a"]]
            hi_calls = [r for r in calls if r["vw"] is vmax or r["vw"] == vmax]
            # (a bracket narrower than the hard-wired 1e-10 of pressureWrapper is outside the quantifier: both ends then read the lower value)
            chk.vc(f"solveWall.brentq.end-values-are-pressures.{i}", p.pc + [Gt(e["b"] - e["a"], sym.R(1, 10**10))],
                   And(sym.to_sym(bool(lo_calls) and bool(hi_calls)), Eq(e["fa"], lo_calls[-1]["P"]) if lo_calls else sp.false,
                       Eq(e["fb"], hi_calls[0]["P"]) if hi_calls else sp.false), func=fn)
            # inside the bracket the function handed to brentq is the wall pressure at that velocity: the evaluation at the root
            # (strictly inside) and the final evaluation have the same arguments, hence (contract) the same results
            at_root = [r for r in calls if r["vw"] is root or r["vw"] == root]
            inside = [Gt(root - e["a"], sym.R(1, 10**10)), Gt(vmax - root, sym.R(1, 10**10))]
            chk.vc(f"solveWall.brentq.function-is-pressure-inside.{i}", p.pc + inside,
                   And(sym.to_sym(len(at_root) >= 1), Eq(e["froot"], at_root[0]["P"]) if at_root else sp.false), func=fn)
            chk.reach(f"solveWall.success.{i}", p.pc, func=fn)
    for need in ("RUNAWAY", "ERROR", "DEFLAGRATION", "DETONATION"):
        if need not in kinds:
            chk.undecided.append(f"solveWall: no path ends with {need} ({kinds})")
    if rets:
        chk.canary("solveWall.paths", rets[-1].pc, sp.false, func=fn)


def c_deflag_entry(chk):
    fn = f"{EOMQ}.findWallVelocityDeflagrationHybrid"
    reg = registry()
    got = {}

    def solve(it, so, a, k):
        it.event(kind="contract-call", name="solveWall", args=list(a))
        return Opaque("results")
    reg["EOM.solveWall"] = solve

    def mk(it):
        eom = make_eom()
        return eom, [], {}, {"eom": eom}
    for i, p in enumerate(sel(chk.summarize(MODULE, "EOM.findWallVelocityDeflagrationHybrid", mk, registry=reg))):
        c = [e for e in p.events if e.get("name") == "solveWall"]
        if len(c) != 1:
            chk.undecided.append("findWallVelocityDeflagrationHybrid: expected one solveWall call")
            continue
        vmin, vmax, wp = c[0]["args"][:3]
        fd = real("fastestDeflag")
        chk.vc(f"deflagration-entry.window.{i}", p.pc, And(Eq(vmin, real("vMin")), Le(vmax, vJ), Le(vmax, fd), Or(Eq(vmax, vJ), Eq(vmax, fd))), func=fn)
        w = as_array(wp.attrs["widths"]).reshape(-1)
        o = as_array(wp.attrs["offsets"]).reshape(-1)
        chk.vc(f"deflagration-entry.initial-wall.{i}", p.pc + [Gt(real("Tnucl"), 0)],
               And(*[Eq(x * real("Tnucl"), 5) for x in w], *[Eq(x, 0) for x in o]), func=fn)


def c_manager(chk):
    """History independence at the manager: every solveWall call builds a fresh grid, Boltzmann solver and EOM; the only long-lived
    objects they receive are thermodynamics, hydrodynamics, model and config; no manager attribute is written."""
    fn = "manager.WallGoManager.setupWallSolver"
    created = []

    def maker(cls):
        def new(it, cref, a, k):
            o = SymObj(cls, None, label=it.fresh_name(cls), attrs={"__args__": list(a), "__kwargs__": dict(k)})
            if cls == "BoltzmannSolver":
                o.attrs["grid"] = a[0]
            it.event(kind="new", cls=cls, obj=o, args=list(a), kwargs=dict(k))
            return o
        return new
    reg = {f"{c}.__new__": maker(c) for c in ("Grid3Scales", "BoltzmannSolver", "EOM", "WallSolver")}
    reg["BoltzmannSolver.updateParticleList"] = lambda it, so, a, k: it.event(kind="contract-call", name="updateParticleList", obj=so, args=list(a))
    reg["BoltzmannSolver.loadCollisions"] = lambda it, so, a, k: it.event(kind="contract-call", name="loadCollisions", obj=so, args=list(a))
    reg["WallGoManager.isModelValid"] = lambda it, so, a, k: True
    T0 = real("Tnucl")

    def make_manager(off_eq):
        cfgGrid = SymObj(None, None, label="configGrid", attrs={"momentumGridSize": 11, "spatialGridSize": integer("gridM"),
                                                               "ratioPointsWall": real("ratioPointsWall"), "smoothing": real("smoothing")})
        cfgEOM = SymObj(None, None, label="configEOM", open_=True)
        cfgB = SymObj(None, None, label="configBoltzmannSolver", attrs={"collisionMultiplier": real("collisionMultiplier")})
        cfg = SymObj(None, None, label="config", attrs={"configGrid": cfgGrid, "configEOM": cfgEOM, "configBoltzmannSolver": cfgB})
        model = SymObj("GenericModel", "genericModel", label="model", attrs={"outOfEquilibriumParticles": Opaque("particles"), "fieldCount": 2})
        # attributes this pre-state does not declare hold whatever earlier calls on the manager left behind (Stale):
        # reading one is the failed obligation no-read-of-stale-state.manager.<attr>, writing through one is a store on the manager
        man = SymObj("WallGoManager", "manager", label="manager", rest="stale")
        man.attrs.update(config=cfg, model=model, thermodynamics=SymObj("Thermodynamics", "thermodynamics", label="thermodynamics"),
                         hydrodynamics=SymObj("Hydrodynamics", "hydrodynamics", label="hydrodynamics"),
                         phasesAtTn=SymObj("PhaseInfo", "containers", label="phasesAtTn", attrs={"temperature": T0}),
                         collisionDirectory=Opaque("collisionDirectory"))
        settings = SymObj("WallSolverSettings", "manager", label="settings",
                          attrs={"wallThicknessGuess": real("wallThicknessGuess"), "meanFreePathScale": real("meanFreePathScale"),
                                 "bIncludeOffEquilibrium": off_eq})
        return man, settings
    for off_eq in (True, False):
        def mk(it, off_eq=off_eq):
            for c in (Gt(T0, 0),):
                it.assume(c)
            man, settings = make_manager(off_eq)
            return man, [settings], {}, {"man": man}
        paths = chk.summarize("manager", "WallGoManager.setupWallSolver", mk, registry=reg)
        rets = sel(paths)
        if not rets:
            chk.undecided.append("setupWallSolver: no returning path")
        for i, p in enumerate(rets):
            man = p.state["man"]
            tag = f"{'offeq' if off_eq else 'eq'}.{i}"
            news = {e["cls"]: e for e in p.events if e.get("kind") == "new"}
            stores = [e for e in p.events if e.get("kind") == "store" and e.get("obj") == man.label]
            chk.vc(f"setupWallSolver.manager-not-written.{tag}", p.pc, sym.to_sym(not stores), func=fn, kind="frame")
            ok = all(c in news for c in ("Grid3Scales", "BoltzmannSolver", "EOM", "WallSolver"))
            chk.vc(f"setupWallSolver.fresh-objects.{tag}", p.pc, sym.to_sym(ok), func=fn, kind="frame")
            if not ok:
                continue
            grid, bs, eom, ws = (news[c]["obj"] for c in ("Grid3Scales", "BoltzmannSolver", "EOM", "WallSolver"))
            ea = news["EOM"]["args"]
            shared = (ea[0] is bs and ea[3] is grid and news["BoltzmannSolver"]["args"][0] is grid
                      and ea[1] is man.attrs["thermodynamics"] and ea[2] is man.attrs["hydrodynamics"])
            chk.vc(f"setupWallSolver.wiring.{tag}", p.pc, sym.to_sym(bool(shared)), func=fn, kind="frame")
            wa = news["WallSolver"]["args"]
            chk.vc(f"setupWallSolver.returns-the-fresh-solver.{tag}", p.pc,
                   And(sym.to_sym(p.value is ws and wa[0] is eom and wa[1] is grid and wa[2] is bs), Eq(wa[3] * T0, real("wallThicknessGuess")),
                       Eq(ea[5] * T0, real("meanFreePathScale"))), func=fn)
            chk.vc(f"setupWallSolver.off-equilibrium-flag.{tag}", p.pc, sym.to_sym(eom.attrs.get("includeOffEq") is off_eq), func=fn)
            # every configured tolerance / bound reaches the solver ("within the CONFIGURED absolute velocity tolerance"): positional or keyword
            ek = dict(news["EOM"]["kwargs"])
            names = ("boltzmannSolver", "thermodynamics", "hydrodynamics", "grid", "nbrFields", "meanFreePathScale", "wallThicknessBounds", "wallOffsetBounds",
                     "includeOffEq", "forceEnergyConservation", "forceImproveConvergence", "errTol", "maxIterations", "pressRelErrTol")
            for k_, v_ in zip(names, ea):
                ek.setdefault(k_, v_)
            ce = man.attrs["config"].attrs["configEOM"].attrs
            want = {"errTol": "errTol", "maxIterations": "maxIterations", "pressRelErrTol": "pressRelErrTol", "forceEnergyConservation": "conserveEnergyMomentum",
                    "wallThicknessBounds": "wallThicknessBounds", "wallOffsetBounds": "wallOffsetBounds"}
            okc = all(k_ in ek and kk in ce and (ek[k_] is ce[kk] or ek[k_] == ce[kk]) for k_, kk in want.items())
            chk.vc(f"setupWallSolver.configured-tolerances-reach-the-solver.{tag}", p.pc, sym.to_sym(bool(okc)), func=fn,
                   meta={"missing": [k_ for k_, kk in want.items() if not (k_ in ek and kk in ce and (ek[k_] is ce[kk] or ek[k_] == ce[kk]))]})
            loads = [e for e in p.events if e.get("name") == "loadCollisions"]
            chk.vc(f"setupWallSolver.collisions-loaded-iff-requested.{tag}", p.pc, sym.to_sym((len(loads) == 1) == off_eq and all(e["obj"] is bs for e in loads)), func=fn)
    # WallGoManager.solveWall: a fresh solver, then the deflagration entry point with its initial thickness
    fn2 = "manager.WallGoManager.solveWall"
    reg2 = {"WallGoManager.setupWallSolver": lambda it, so, a, k: (it.event(kind="contract-call", name="setupWallSolver", args=list(a)),
                                                                     SymObj("WallSolver", "manager", label="solver", attrs={
                                                                         "eom": SymObj("EOM", "equationOfMotion", label="fresh-eom"),
                                                                         "initialWallThickness": real("initialWallThickness")}))[1],
            "EOM.findWallVelocityDeflagrationHybrid": lambda it, so, a, k: (it.event(kind="contract-call", name="entry", obj=so, args=list(a)), Opaque("results"))[1]}

    def mk2(it):
        man, settings = make_manager(True)
        return man, [settings], {}, {"man": man, "settings": settings}
    for i, p in enumerate(sel(chk.summarize("manager", "WallGoManager.solveWall", mk2, registry=reg2))):
        s_ = [e for e in p.events if e.get("name") == "setupWallSolver"]
        en = [e for e in p.events if e.get("name") == "entry"]
        stores = [e for e in p.events if e.get("kind") == "store" and e.get("obj") == p.state["man"].label]
        chk.vc(f"manager.solveWall.fresh-solver-per-call.{i}", p.pc,
               sym.to_sym(len(s_) == 1 and len(en) == 1 and s_[0]["args"][0] is p.state["settings"] and en[0]["obj"].label == "fresh-eom"
                          and en[0]["args"][0] == real("initialWallThickness") and not stores), func=fn2, kind="frame")


def c_frames(chk):
    """The frame that the contract of wallPressure assumes, checked on the real AST (wgvc.effects): through all methods of the
    EOM that wallPressure can reach, the only attributes of the EOM that are written are the two convergence flags; the collaborators it
    calls methods on are the per-call grid and Boltzmann solver (fresh objects, see setupWallSolver), hydrodynamics.findHydroBoundaries
    (whose own frame is the success flag, never read here), and read-only thermodynamics / potential callbacks.  The free-energy objects
    are evaluated inside their table (clamped argument), so their adaptive interpolation state is not touched."""
    from wgvc.effects import frame_of
    from wgvc import source
    fn = f"{EOMQ}.wallPressure"
    chk.under_contract(MODULE, "EOM.wallPressure")
    f = frame_of(MODULE, "EOM", "wallPressure")
    for m in sorted(f["methods"]):
        chk.under_contract(MODULE, f"EOM.{m}")
    chk.vc("wallPressure.frame.attributes-written", [], sym.to_sym(f["stores"] <= {"successTemperatureProfile", "successWallPressure"} and not f["unresolved"]),
           func=fn, kind="frame", meta={"stores": sorted(f["stores"])})
    allowed = {"boltzmannSolver.getDeltas", "boltzmannSolver.setBackground", "grid.changePositionFalloffScale", "grid.getCompactificationDerivatives",
               "hydrodynamics.findHydroBoundaries", "thermo.effectivePotential.derivField", "thermo.effectivePotential.derivT",
               "thermo.effectivePotential.evaluate", "thermo.freeEnergyHigh", "thermo.freeEnergyLow", "thermo.freeEnergyHigh.interpolationRangeMax",
               "thermo.freeEnergyHigh.interpolationRangeMin", "thermo.freeEnergyLow.interpolationRangeMax", "thermo.freeEnergyLow.interpolationRangeMin"}
    chk.vc("wallPressure.frame.collaborators", [], sym.to_sym(f["collaborator_calls"] <= allowed), func=fn, kind="frame",
           meta={"calls": sorted(f["collaborator_calls"])})
    h = frame_of("hydrodynamics", "Hydrodynamics", "findHydroBoundaries")
    chk.vc("findHydroBoundaries.frame.attributes-written", [], sym.to_sym(h["stores"] <= {"success"} and not h["unresolved"]),
           func="hydrodynamics.Hydrodynamics.findHydroBoundaries", kind="frame", meta={"stores": sorted(h["stores"])})
    s_ = frame_of(MODULE, "EOM", "solveWall")
    chk.vc("solveWall.frame.attributes-written", [],
           sym.to_sym(s_["stores"] <= {"successTemperatureProfile", "successWallPressure", "pressAbsErrTol"} and not s_["unresolved"]),
           func=f"{EOMQ}.solveWall", kind="frame", meta={"stores": sorted(s_["stores"])})
    # the free-energy tables are evaluated at a clamped temperature (inside the table: no direct evaluation, no adaptive update)
    lo, hi = {"Low": real("rangeMinLow"), "High": real("rangeMinHigh")}, {"Low": real("rangeMaxLow"), "High": real("rangeMaxHigh")}
    seen = []

    def fe(which):
        def call(it, so, a, k):
            it.event(kind="contract-call", name=f"freeEnergy{which}", args=list(a))
            return SymObj("FreeEnergyValueType", "freeEnergy", label="fev", attrs={"fieldsAtMinimum": Opaque(f"vev{which}"), "veffValue": real(f"veff{which}")})
        return call

    def stop(it, so, a, k):
        raise PathEnd()
    reg = {"Hydrodynamics.findHydroBoundaries": lambda it, so, a, k: (real("c1"), real("c2"), real("Tplus"), real("Tminus"), real("velocityMid")),
           "EOM._updateGrid": stop,
           "Polynomial.__new__": lambda it, cref, a, k: SymObj("Polynomial", "polynomial", label="poly"),
           "BoltzmannDeltas.__new__": lambda it, cref, a, k: SymObj("BoltzmannDeltas", "containers", label="deltas"),
           "BoltzmannResults.__new__": lambda it, cref, a, k: SymObj("BoltzmannResults", "results", label="br")}

    def mk(it):
        eom = make_eom()
        th = eom.attrs["thermo"]
        for which in ("Low", "High"):
            feo = SymObj("FreeEnergy", "freeEnergy", label=f"freeEnergy{which}")
            th.attrs[f"freeEnergy{which}"] = feo
        it.registry = dict(it.registry)
        eom.attrs.update(particles=[], grid=SymObj("Grid3Scales", "grid3Scales", label="grid", attrs={"M": 3, "N": 3}), forceImproveConvergence=False,
                         pressAbsErrTol=real("pressAbsErrTol"))
        for which in ("Low", "High"):
            it.assume(Le(lo[which], hi[which]))
        return eom, [real("vw"), params("in")], {}, {"eom": eom}
    regs = dict(reg)
    regs["FreeEnergy.__call__"] = lambda it, so, a, k: fe(so.label.replace("freeEnergy", ""))(it, so, a, k)
    regs["FreeEnergy.interpolationRangeMax"] = lambda it, so, a, k: hi[so.label.replace("freeEnergy", "")]
    regs["FreeEnergy.interpolationRangeMin"] = lambda it, so, a, k: lo[so.label.replace("freeEnergy", "")]
    paths = chk.summarize(MODULE, "EOM.wallPressure", mk, registry=regs, record=False)
    n = 0
    for i, p in enumerate(paths):
        for e in p.events:
            if e.get("kind") == "contract-call" and str(e.get("name", "")).startswith("freeEnergy"):
                which = e["name"].replace("freeEnergy", "")
                n += 1
                chk.vc(f"wallPressure.free-energy-evaluated-inside-table.{which}.{i}", p.pc,
                       And(Ge(e["args"][0], lo[which]), Le(e["args"][0], hi[which])), func=fn)
    if n < 2:
        chk.undecided.append("wallPressure: free-energy evaluations not reached")


def c_wallPressure_body(chk):
    """The body of EOM.wallPressure, with _intermediatePressureResults / _getNextPressure under contract (each returns a fresh pressure, wall
    parameters, Boltzmann results and background) and a loop contract for the convergence iteration, for every iteration count:
      * the hydrodynamic data returned (T+, T-, vJ) are those of findHydroBoundaries AT the wall velocity asked for;
      * on a converged exit the four items returned come from ONE evaluation, the last one made, the flag successWallPressure is the True
        written at the start, and the exit test |P_k - P_{k-1}| < max(rtol |P_k|, atol) * multiplier (or the inner-solver variant) held;
      * on the iteration-limit exit the flag is False (and only then);  atol/rtol default to the object's tolerances.
    Loop contract: `pressures` is abstracted by its length class (1, 2, 3, >= 4: the body only looks at the last four entries and at
    len() against 2 and 4), the invariant says that (pressure, wallParams, boltzmannResults, boltzmannBackground) are the outputs of one and
    the same evaluation, that pressures[-1] is that pressure, multiplier > 0, i >= 0 and that the flag has not been lowered."""
    import ast as _ast
    from wgvc.interp import _Break, PathEnd as _PathEnd
    fn = f"{EOMQ}.wallPressure"
    vw = real("vw")
    HB = {k: specfun(f"hb.{k}") for k in ("c1", "c2", "Tplus", "Tminus", "velocityMid")}
    lo, hi = {"Low": real("rangeMinLow"), "High": real("rangeMinHigh")}, {"Low": real("rangeMaxLow"), "High": real("rangeMaxHigh")}

    def evaluation(it, name, inputs):
        n = sum(1 for e in it.events if e.get("kind") == "evaluation")
        rec = {"kind": "evaluation", "name": name, "n": n, "P": it.fresh_real(f"P{n}"), "wp": params(f"eval{n}"), "br": bres(f"eval{n}"),
               "bb": SymObj("BoltzmannBackground", "containers", label=f"background.eval{n}",
                            attrs={"temperatureProfile": as_array([it.fresh_real(f"Tprof{n}.{j}") for j in range(4)]),
                                   "velocityProfile": as_array([it.fresh_real(f"vprof{n}.{j}") for j in range(4)])}),
               "err": it.fresh_real(f"errSolver{n}"), "inputs": inputs}
        it.events.append(rec)
        return rec

    def ipr(it, so, a, k):
        r = evaluation(it, "_intermediatePressureResults", (list(a), dict(k)))
        return (r["P"], r["wp"], r["br"], r["bb"])

    def gnp(it, so, a, k):
        r = evaluation(it, "_getNextPressure", (list(a), dict(k)))
        it.assume(Ge(r["err"], 0))
        return (r["P"], r["wp"], r["br"], r["bb"], r["err"])
    reg = {"Hydrodynamics.findHydroBoundaries": lambda it, so, a, k: (it.event(kind="contract-call", name="findHydroBoundaries", args=list(a)),
                                                                     tuple(HB[n](a[0]) for n in ("c1", "c2", "Tplus", "Tminus", "velocityMid")))[1],
           "EOM._updateGrid": lambda it, so, a, k: it.event(kind="contract-call", name="_updateGrid", args=list(a)),
           "EOM._intermediatePressureResults": ipr, "EOM._getNextPressure": gnp,
           "Polynomial.__new__": lambda it, cref, a, k: SymObj("Polynomial", "polynomial", label="zeroPoly"),
           "BoltzmannDeltas.__new__": lambda it, cref, a, k: SymObj("BoltzmannDeltas", "containers", label="zeroDeltas"),
           "BoltzmannResults.__new__": lambda it, cref, a, k: SymObj("BoltzmannResults", "results", label="zeroResults"),
           "HydroResults.__new__": lambda it, cref, a, k: SymObj("HydroResults", "results", label="hydroResults", attrs=dict(k)),
           "FreeEnergy.__call__": lambda it, so, a, k: SymObj("FreeEnergyValueType", "freeEnergy", label="fev", attrs={"fieldsAtMinimum": Opaque(so.label + ".vev"), "veffValue": real(so.label + ".veff")}),
           "FreeEnergy.interpolationRangeMax": lambda it, so, a, k: hi[so.label.replace("freeEnergy", "")],
           "FreeEnergy.interpolationRangeMin": lambda it, so, a, k: lo[so.label.replace("freeEnergy", "")]}
    LOOPVARS = ("pressure", "wallParams", "boltzmannResults", "boltzmannBackground")

    def same_evaluation(it, env):
        """the four loop variables are the outputs of one evaluation (the last one recorded)"""
        evs = [e for e in it.events if e.get("kind") == "evaluation"]
        if not evs:
            return False
        e = evs[-1]
        return (env.lookup("pressure") is e["P"] and env.lookup("wallParams") is e["wp"] and env.lookup("boltzmannResults") is e["br"]
                and env.lookup("boltzmannBackground") is e["bb"])

    def make_lspec(length_class):
        def lspec(it, st, env, clo):
            def invariant():
                ps = env.lookup("pressures")
                fs = [sym.to_sym(bool(same_evaluation(it, env))), sym.to_sym(bool(isinstance(ps, list) and len(ps) >= 1 and ps[-1] is env.lookup("pressure"))),
                      Gt(env.lookup("multiplier"), 0), Ge(env.lookup("i"), 0),
                      sym.to_sym(clo.self_obj.attrs.get("successWallPressure") is True)]
                return fs
            for k_, f in enumerate(invariant()):
                it.oblige(f"loop-invariant.entry.{k_}", f, kind="inv")
            # havoc: an arbitrary earlier iteration left this state
            r = evaluation(it, "arbitrary-earlier-evaluation", None)
            env.vars.update(pressure=r["P"], wallParams=r["wp"], boltzmannResults=r["br"], boltzmannBackground=r["bb"])
            env.vars["pressures"] = [it.fresh_real(f"Pold{j}") for j in range(length_class - 1)] + [r["P"]]
            env.vars["multiplier"] = it.fresh_real("multiplier.k")
            env.vars["i"] = it.fresh_int("i.k")
            env.vars["improveConvergence"] = it.fresh_bool("improve.k")
            env.vars["errorSolver"] = it.fresh_real("errorSolver.k")
            env.vars["error"] = it.fresh_real("error.k")
            env.vars["errTol"] = it.fresh_real("errTol.k")
            it.event(kind="loop-havoc", length_class=length_class)
            for f in invariant():
                it.assume(f)
            try:
                it.exec_block(st.body, env, clo)
            except _Break:
                it.event(kind="loop-exit", where=clo.qualname, via="break", improve=env.lookup("improveConvergence"), error=env.lookup("error"),
                         errorSolver=env.lookup("errorSolver"), errTol=env.lookup("errTol"), multiplier=env.lookup("multiplier"), pressures=list(env.lookup("pressures")))
                return
            for k_, f in enumerate(invariant()):
                it.oblige(f"loop-invariant.preserved.{k_}", f, kind="inv")
            raise _PathEnd()
        return lspec
    assigned_ok = {"pressure", "wallParams", "boltzmannResults", "boltzmannBackground", "errorSolver", "error", "errTol", "i", "multiplier", "improveConvergence"}
    src = source.get_function(MODULE, "EOM.wallPressure").node
    loops_ast = [n for n in _ast.walk(src) if isinstance(n, _ast.While)]
    names = {n.id for w_ in loops_ast for b in w_.body for n in _ast.walk(b) if isinstance(n, _ast.Name) and isinstance(n.ctx, _ast.Store)}
    stores = {_ast.unparse(n) for w_ in loops_ast for b in w_.body for n in _ast.walk(b) if isinstance(n, _ast.Attribute) and isinstance(n.ctx, _ast.Store)}
    chk.vc("wallPressure.loop.frame", [], sym.to_sym(len(loops_ast) == 1 and names <= assigned_ok and stores <= {"self.successWallPressure"}), func=fn, kind="frame",
           meta={"assigned": sorted(names), "stores": sorted(stores)})
    if not (len(loops_ast) == 1 and names <= assigned_ok and stores <= {"self.successWallPressure"}):
        return
    atol_in, rtol_in = real("atol.in"), real("rtol.in")
    for tolmode in ("defaults", "given"):
        for length_class in (1, 2, 3, 4):
            def mk(it, tolmode=tolmode):
                eom = make_eom()
                th = eom.attrs["thermo"]
                for which in ("Low", "High"):
                    th.attrs[f"freeEnergy{which}"] = SymObj("FreeEnergy", "freeEnergy", label=f"freeEnergy{which}")
                    it.assume(Le(lo[which], hi[which]))
                eom.attrs.update(particles=[], grid=SymObj("Grid3Scales", "grid3Scales", label="grid", attrs={"M": 3, "N": 3}),
                                 forceImproveConvergence=boolean("forceImproveConvergence"), forceEnergyConservation=boolean("forceEnergyConservation"),
                                 pressAbsErrTol=real("pressAbsErrTol"))
                for c in (Gt(real("pressAbsErrTol"), 0), Gt(real("pressRelErrTol"), 0), Gt(atol_in, 0), Gt(rtol_in, 0), Ge(integer("maxIterations"), 2)):
                    it.assume(c)
                kw = {} if tolmode == "defaults" else {"atol": atol_in, "rtol": rtol_in}
                return eom, [vw, params("in")], kw, {"eom": eom}
            paths = chk.summarize(MODULE, "EOM.wallPressure", mk, registry=reg, loop_specs={("EOM.wallPressure", 0): make_lspec(length_class)},
                                  record=False)
            rets = sel(paths)
            tag = f"{tolmode}.len{length_class}"
            if not rets:
                chk.undecided.append(f"wallPressure[{tag}]: no returning path")
            for p in sel(paths, "raise"):
                chk.undecided.append(f"wallPressure[{tag}] raises {p.exc.cls} {p.exc.xargs}")
            atol = real("pressAbsErrTol") if tolmode == "defaults" else atol_in
            rtol = real("pressRelErrTol") if tolmode == "defaults" else rtol_in
            for i, p in enumerate(rets):
                eom = p.state["eom"]
                P, wp, br, bb, hr = p.value
                evs = [e for e in p.events if e.get("kind") == "evaluation"]
                ex = [e for e in p.events if e.get("kind") == "loop-exit"]
                hb = [e for e in p.events if e.get("name") == "findHydroBoundaries"]
                chk.vc(f"wallPressure.body.{tag}.hydro-data-at-the-velocity-asked.{i}", p.pc,
                       And(sym.to_sym(len(hb) == 1 and hb[0]["args"][0] is vw and isinstance(hr, SymObj)),
                           Eq(hr.attrs["temperaturePlus"], HB["Tplus"](vw)), Eq(hr.attrs["temperatureMinus"], HB["Tminus"](vw)), Eq(hr.attrs["velocityJouguet"], vJ)), func=fn)
                flag = eom.attrs.get("successWallPressure")
                if len(ex) != 1:
                    chk.undecided.append(f"wallPressure[{tag}]: returning path without a loop exit")
                    continue
                e = ex[0]
                last = evs[-1]
                if flag is True:
                    chk.vc(f"wallPressure.body.{tag}.converged.outputs-of-the-last-evaluation.{i}", p.pc,
                           sym.to_sym(bool(P is last["P"] and wp is last["wp"] and br is last["br"] and bb is last["bb"])), func=fn)
                    ps = e["pressures"]
                    errTol = sp.Max(rtol * sp.Abs(last["P"]), atol) * e["multiplier"]
                    err = sp.Abs(ps[-1] - ps[-2])
                    chk.vc(f"wallPressure.body.{tag}.converged.exit-test-held.{i}", p.pc,
                           And(sym.to_sym(ps[-1] is last["P"]), Or(Lt(err, errTol), And(Lt(e["errorSolver"], errTol), e["improve"])), Le(e["errorSolver"], errTol)), func=fn)
                else:
                    chk.vc(f"wallPressure.body.{tag}.not-converged.flag-false-and-iteration-limit.{i}", p.pc,
                           sym.to_sym(flag is False), func=fn)
                    ps = e["pressures"]
                    k4 = ps[-4:]
                    chk.vc(f"wallPressure.body.{tag}.not-converged.mean-of-last-evaluations.{i}", p.pc,
                           And(Eq(P * len(k4), sum(k4)), sym.to_sym(bool(wp is last["wp"] and br is last["br"] and bb is last["bb"]))), func=fn)
    chk.under_contract(MODULE, "EOM.wallPressure")


def c_getNextPressure(chk):
    """_getNextPressure: two successive evaluations from the incoming state; if the three pressures are monotone the outputs are those of
    the second evaluation (all four from it) with err = |P3 - P2|; otherwise ONE more evaluation at the Aitken point
    t = (P1 - P2)/(P1 - 2 P2 + P3) of wall parameters and Boltzmann results, whose outputs are returned with err = |P4 - P2|.
    Every evaluation gets the same boundary data and profiles that were passed in."""
    fn = f"{EOMQ}._getNextPressure"
    P1 = real("P.in")
    consts = {n: real(f"gnp.{n}") for n in ("c1", "c2", "velocityMid", "Tplus", "Tminus", "multiplier")}
    vevL, vevH, Tprof, vprof = Opaque("vevLowT"), Opaque("vevHighT"), Opaque("temperatureProfile"), Opaque("velocityProfile")

    def ipr(it, so, a, k):
        n = sum(1 for e in it.events if e.get("kind") == "evaluation")
        rec = {"kind": "evaluation", "n": n, "P": it.fresh_real(f"P{n + 2}"), "wp": params(f"e{n}"), "br": bres(f"e{n}"),
               "bb": SymObj("BoltzmannBackground", "containers", label=f"background.e{n}"), "args": list(a), "kwargs": dict(k)}
        it.events.append(rec)
        return (rec["P"], rec["wp"], rec["br"], rec["bb"])

    def mk(it):
        eom = make_eom()
        wp1, br1 = params("in"), bres("in")
        return eom, [P1, wp1, vevL, vevH, consts["c1"], consts["c2"], consts["velocityMid"], br1, consts["Tplus"], consts["Tminus"]], \
            {"temperatureProfile": Tprof, "velocityProfile": vprof, "multiplier": consts["multiplier"]}, {"wp1": wp1, "br1": br1}
    paths = chk.summarize(MODULE, "EOM._getNextPressure", mk, registry={"EOM._intermediatePressureResults": ipr})
    rets = sel(paths)
    if len(rets) != len(paths) or not rets:
        chk.undecided.append(f"_getNextPressure: {len(paths) - len(rets)} non-returning paths")
    kinds = set()
    for i, p in enumerate(rets):
        evs = [e for e in p.events if e.get("kind") == "evaluation"]
        P, wp, br, bb, err = p.value
        last = evs[-1]
        wp1, br1 = p.state["wp1"], p.state["br1"]
        chk.vc(f"_getNextPressure.outputs-of-the-last-evaluation.{i}", p.pc,
               sym.to_sym(bool(len(evs) in (2, 3) and P is last["P"] and wp is last["wp"] and br is last["br"] and bb is last["bb"])), func=fn)
        if len(evs) < 2:
            continue
        P2, P3 = evs[0]["P"], evs[1]["P"]
        # chaining and pass-through of the boundary data
        def common(e):
            a = list(e["args"]) + [e["kwargs"].get(n) for n in ("temperatureProfileInput", "velocityProfileInput", "multiplier")][len(e["args"]) - 9:] if len(e["args"]) < 12 else list(e["args"])
            return a
        a0, a1 = common(evs[0]), common(evs[1])
        ok_chain = (a0[0] is wp1 and a0[6] is br1 and a1[0] is evs[0]["wp"] and a1[6] is evs[0]["br"]
                    and all(a[1] is vevL and a[2] is vevH and a[3] is consts["c1"] and a[4] is consts["c2"] and a[5] is consts["velocityMid"]
                            and a[7] is consts["Tplus"] and a[8] is consts["Tminus"] and a[9] is Tprof and a[10] is vprof and a[11] is consts["multiplier"]
                            for a in [common(e) for e in evs]))
        chk.vc(f"_getNextPressure.evaluations-chained-with-the-same-boundary-data.{i}", p.pc, sym.to_sym(bool(ok_chain)), func=fn)
        if len(evs) == 2:
            kinds.add("monotone")
            chk.vc(f"_getNextPressure.monotone.{i}", p.pc, And(Ge((P3 - P2) * (P2 - P1), 0), Eq(err, sp.Abs(P3 - P2))), func=fn)
        else:
            kinds.add("aitken")
            t = (P1 - P2) / (P1 - 2 * P2 + P3)
            a2 = common(evs[2])
            w_in, b_in = a2[0], a2[6]
            goals = [Lt((P3 - P2) * (P2 - P1), 0), Eq(err, sp.Abs(evs[2]["P"] - P2))]
            for nm in ("widths", "offsets"):
                x1, x2, xi = (as_array(o.attrs[nm]).reshape(-1) for o in (wp1, evs[0]["wp"], w_in))
                goals += [Eq(xi[j], x1[j] + (x2[j] - x1[j]) * t) for j in range(len(x1))]
            for nm in ("deltaF", "Deltas"):       # (the error estimates of BoltzmannResults combine with |t| by design: not interpolated)
                goals.append(Eq(b_in.attrs[nm], br1.attrs[nm] + (evs[0]["br"].attrs[nm] - br1.attrs[nm]) * t))
            chk.vc(f"_getNextPressure.aitken-point.{i}", p.pc, And(*goals), func=fn)
            chk.canary(f"_getNextPressure.aitken-point.{i}", p.pc, Eq(as_array(w_in.attrs["widths"]).reshape(-1)[0], as_array(wp1.attrs["widths"]).reshape(-1)[0]), func=fn)
    if kinds != {"monotone", "aitken"}:
        chk.undecided.append(f"_getNextPressure: path classes {sorted(kinds)}")


def c_detonation(chk):
    """findWallVelocityDetonation: every solution in the returned list comes from solveWall on a step [vw2, vw3] over which the pressure
    goes from <= 0 to >= 0 (with the two pressure evaluations handed over); when no step brackets a root exactly one result without a
    velocity is returned, labelled RUNAWAY only if the pressure was non-positive at the start of the window and - by the loop invariant -
    at every velocity evaluated afterwards, including the top of the searched window; no unsuccessful label other than ERROR exists."""
    fn = f"{EOMQ}.findWallVelocityDetonation"
    vmin, vmax = real("vmin.det"), real("vmax.det")
    reg = registry()
    reg["EOM.solveWall"] = lambda it, so, a, k: (it.event(kind="contract-call", name="solveWall", args=list(a)),
                                                  SymObj("WallGoResults", "results", label=it.fresh_name("solution")))[1]
    ext = dict(stubs.EXTERNALS)
    # helpers.nextStepDeton (quad/erf based step-size heuristic): abstracted as "returns some velocity"
    def next_step(it, so, a, k):
        r = it.fresh_real("nextStep")
        it.assume(And(Ge(r, a[1]), Le(r, a[7])))      # assumed contract: a velocity between pos2 and posMax
        return r
    reg["nextStepDeton"] = next_step
    ext["numpy.std"] = lambda it, a, k: it.fresh_real("std")

    def last_rec(it):
        return it.__dict__.get("_wp_calls", [])[-1]

    def inv(it, envv):
        calls = it.__dict__.get("_wp_calls", [])
        p2 = envv.lookup("pressure2")
        rec = next((r for r in reversed(calls) if r["P"] is p2), None)
        results = envv.lookup("listResults")
        empty = len(results) == 0
        fs = [sym.to_sym(rec is not None), Eq(rec["vw"], envv.lookup("vw2")) if rec else sp.false, Ge(envv.lookup("vw2"), vmin)]
        if empty:
            # no sign change so far: a start at non-positive pressure keeps every later pressure non-positive
            fs.append(Implies(Le(envv.lookup("pressureIni"), 0), Le(p2, 0)))
            # ... and a non-negative pressure is only ever carried to a velocity strictly below the top of the window
            # (reaching the top with positive pressure leaves the loop before evaluating there)
            fs.append(Implies(And(Ge(p2, 0), Gt(envv.lookup("vw2"), vmin)), Lt(envv.lookup("vw2"), vmax)))
        return fs
    state = {}

    def ghost(it):
        if state.get("owner") is not it:
            n = len(it.__dict__.setdefault("_wp_cache", {}))
            v = it.fresh_real("vw2.k")
            rec = dict(n=n, vw=v, P=it.fresh_real(f"P{n}"), wp=params(f"r{n}"), br=bres(f"r{n}"), bb=Opaque(f"bb{n}"), hr=Opaque(f"hr{n}"),
                       okT=it.fresh_bool(f"okT{n}"), okP=it.fresh_bool(f"okP{n}"), args={})
            it._wp_cache[("ghost", n)] = rec
            it.__dict__.setdefault("_wp_calls", []).append(rec)
            state.update(owner=it, rec=rec, v=v, empty=it.decide_free())
        return state
    havoc = {
        "vw2": lambda it: ghost(it)["v"], "pressure2": lambda it: ghost(it)["rec"]["P"],
        "wallPressureResults2": lambda it: (ghost(it)["rec"]["P"], ghost(it)["rec"]["wp"], ghost(it)["rec"]["br"], ghost(it)["rec"]["bb"], ghost(it)["rec"]["hr"]),
        "wallPressureResults1": lambda it: Opaque("results1"), "vw1": lambda it: it.fresh_real("vw1.k"), "pressure1": lambda it: it.fresh_real("pressure1.k"),
        "wallParams2": lambda it: params("k2"), "list2ndDeriv": lambda it: [], "listResults": lambda it: [] if ghost(it)["empty"] else [Opaque("earlier solution")],
        "std2ndDeriv": lambda it: it.fresh_real("std2"), "n": lambda it: 0, "vw3": lambda it: it.fresh_real("vw3.k"),
        "pressure3": lambda it: it.fresh_real("pressure3.k"), "_": lambda it: Opaque("_"),
    }
    loops = {("EOM.findWallVelocityDetonation", 0): loop_spec(inv, havoc)}

    def mk(it):
        eom = make_eom()
        eom.attrs["hydrodynamics"].attrs["template"].attrs["epsilon"] = real("template.epsilon")
        for c in (Gt(vmin, vJ), Lt(vmin, vmax), Lt(vmax, 1), Gt(vJ, 0), Gt(real("Tnucl"), 0)):
            it.assume(c)
        return eom, [vmin, vmax], {}, {"eom": eom}
    paths = chk.summarize(MODULE, "EOM.findWallVelocityDetonation", mk, registry=reg, externals=ext, loop_specs=loops,
                          config={"max_unroll": 3})
    kinds = set()
    for i, p in enumerate(sel(paths)):
        out = p.value
        calls = [e for e in p.events if e.get("name") == "solveWall"]
        wp = LAST(p)
        if isinstance(out, list) and out and all(isinstance(o, SymObj) and o.cls == "WallGoResults" and "solutionType" in o.attrs for o in out):
            # no bracketing step: one result without a velocity
            r = out[0]
            t = r.attrs["solutionType"].name
            kinds.add(t)
            chk.vc(f"detonation.no-solution.single-result-without-velocity.{i}", p.pc,
                   sym.to_sym(len(out) == 1 and r.attrs.get("wallVelocity") is None and r.attrs.get("success") is True), func=fn)
            if t == "RUNAWAY":
                pini = wp[0]["P"]
                plast = wp[-1]["P"]
                chk.vc(f"detonation.runaway.pressure-nonpositive-from-start-to-top.{i}", p.pc, And(Le(pini, 0), Le(plast, 0)), func=fn)
            continue
        if isinstance(out, list) and calls:
            kinds.add("solutions")
            # the step handed to solveWall brackets a sign change of the pressure, with the evaluations made at its ends
            for j, c in enumerate(calls):
                a = c["args"]
                lo_v, hi_v, _, res_lo, res_hi = a[:5]
                p_lo = res_lo[0] if isinstance(res_lo, tuple) else None
                p_hi = res_hi[0] if isinstance(res_hi, tuple) else None
                ok = p_lo is not None and p_hi is not None
                chk.vc(f"detonation.solution-step-brackets-sign-change.{i}.{j}", p.pc,
                       And(sym.to_sym(bool(ok)), Le(p_lo, 0) if ok else sp.false, Ge(p_hi, 0) if ok else sp.false, Lt(lo_v, hi_v)), func=fn)
                recs_hi = [r for r in wp if r["P"] is p_hi]
                chk.vc(f"detonation.solution-step-upper-evaluation-at-upper-end.{i}.{j}", p.pc,
                       And(sym.to_sym(bool(recs_hi)), Eq(recs_hi[0]["vw"], hi_v) if recs_hi else sp.false), func=fn)
    if not {"RUNAWAY", "solutions"} <= kinds:
        chk.undecided.append(f"findWallVelocityDetonation: path classes {sorted(kinds)}")
    for p in sel(paths, "raise"):
        if p.exc.cls != "AssertionError":
            chk.undecided.append(f"findWallVelocityDetonation raises {p.exc.cls}")
