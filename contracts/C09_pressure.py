"""C09 - in a uniform plasma the wall pressure equals the free-energy difference.

Decided (the total-derivative structure of the statement, for every wall shape):
  * wallProfile: dPhidz is the exact z-derivative of fields, for every field, both the scalar-z and the array branch;
  * the pressure tail of _intermediatePressureResults: integrand_i = sum_f (dV/dphi_f + dVout_f)(phi_i, T_i) * dphi_f/dz(z_i) with the
    profile of the FINAL wall parameters, dVout_f = 1/2 sum_p dof_p d m_p^2/d phi_f Delta00_{p,i}; the polynomial built from it is
    integrated with weight -dz/dchi; the returned pressure is that integral;
  * chain rule: with constant T and no Delta00 the integrand is d/dz V(phi(z), T) (so its integral is V(low) - V(high) ... exactly).
  * the weight dz/dchi is the derivative of the position map of the grid (Grid and Grid3Scales; shared with C17).
Not claimed: equality with V(low)-V(high) numerically (quadrature and finite-difference accuracy, C16 / C19).
"""
from __future__ import annotations

import numpy as np
import sympy as sp

from wgvc.api import *            # noqa: F401,F403
from wgvc import sym, stubs
from wgvc.builtins_model import as_array
from .C04_plasma import make_eom, EOMQ

PROPERTY = "C09"
MODULE = "equationOfMotion"
MIN_OBLIGATIONS = 12
NF = 2
LAST_MINIMIZE = None

dV = [specfun(f"dVeff_dphi{f}") for f in range(NF)]
Vz = specfun("VeffF", [dV[0], dV[1], "dVeffF_dT"])
dm2 = [[specfun(f"dmsq{p}_dphi{f}") for f in range(NF)] for p in range(2)]


def wall_params(tag=""):
    return SymObj("WallParams", "containers", label="wallParams" + tag,
                  attrs={"widths": as_array([real(f"width{f}{tag}") for f in range(NF)]),
                         "offsets": as_array([real(f"offset{f}{tag}") for f in range(NF)])})


LOW = [real(f"vevLow{f}") for f in range(NF)]
HIGH = [real(f"vevHigh{f}") for f in range(NF)]
REG_FIELDS = {"Fields.castFromNumpy": lambda it, cref, a, k: a[0]}


def profile_spec(z, f, tag=""):
    w, o = real(f"width{f}{tag}"), real(f"offset{f}{tag}")
    return LOW[f] + (HIGH[f] - LOW[f]) * (1 + sp.tanh(z / w + o)) / 2


def build(chk):
    c_wallProfile(chk)
    c_pressure_tail(chk)
    c_weight(chk)
    c_updateGrid(chk)
    c_minimiser_bounds(chk)
    from .C19_stencils import c_effective_potential
    c_effective_potential(chk)
    # the iteration helpers between wallPressure and the pressure tail pass the profiles and boundary data through unchanged (shared with C01)
    from .C01_wallsolver import c_getNextPressure
    c_getNextPressure(chk)
    # the quadrature along z that turns the integrand into the pressure (Gauss-Chebyshev-Lobatto weights pi/M; shared with C16; M != N on purpose)
    from .C16_polynomial import one_axis
    one_axis(chk, 4, 5, 'z', False)
    one_axis(chk, 4, 5, 'z', True)


def c_minimiser_bounds(chk, run_tail=False):
    """The box handed to the minimiser of the wall action is the configured one: every width between wallThicknessBounds/Tn, every FREE
    offset (all but the first, which is pinned to 0) between wallOffsetBounds - nothing else narrows it (a one-sided box would make the
    result depend on the sign convention / ordering of the fields), and the start point is the incoming wall, clipped into the box."""
    fn = f"{EOMQ}._intermediatePressureResults"
    if run_tail:
        from wgvc.api import Check
        probe = Check(chk.prop + "-probe")
        c_pressure_tail(probe)
        chk.path_count += probe.path_count
    ev = LAST_MINIMIZE
    if ev is None or ev.get("lb") is None or ev.get("ub") is None:
        chk.undecided.append("pressure tail: minimiser bounds not captured")
        return
    lb, ub = as_array(ev["lb"]).reshape(-1), as_array(ev["ub"]).reshape(-1)
    Tn = real("Tnucl")
    ok = len(lb) == len(ub) == 2 * NF - 1
    chk.vc("_intermediatePressureResults.minimiser-box.shape", [], sym.to_sym(bool(ok)), func=fn)
    if not ok:
        return
    goals = [Eq(lb[f] * Tn, real("wmin")) for f in range(NF)] + [Eq(ub[f] * Tn, real("wmax")) for f in range(NF)]
    goals += [Eq(lb[NF + k], real("omin")) for k in range(NF - 1)] + [Eq(ub[NF + k], real("omax")) for k in range(NF - 1)]
    chk.vc("_intermediatePressureResults.minimiser-box.is-the-configured-one", ev["pc"] + [Gt(Tn, 0)], And(*goals), func=fn)


def c_updateGrid(chk):
    """_updateGrid re-maps the grid to the wall it is about to integrate over.  Field i of the tanh ansatz varies over z/L_i + d_i in [-1, 1],
    i.e. z in [(-1 - d_i) L_i, (1 - d_i) L_i]; the grid's wall region [c' - t, c' + t] (c' = centre + t ln2/2: the centre is moved to the peak
    of d(m^2)/dz) is the ENVELOPE of these intervals: it contains every one of them and its two ends are attained."""
    fn = f"{EOMQ}._updateGrid"
    NFLD = 2
    widths = [real(f"gw{f}") for f in range(NFLD)]
    offs = [real(f"go{f}") for f in range(NFLD)]
    vmid = real("velocityMid")

    def mk(it):
        grid = SymObj("Grid3Scales", "grid3Scales", label="grid", attrs={"smoothing": real("smoothing"), "ratioPointsWall": real("ratioPointsWall")})
        eom = SymObj("EOM", "equationOfMotion", label="eom", attrs={"grid": grid, "meanFreePathScale": real("meanFreePathScale"), "includeOffEq": boolean("includeOffEq")})
        wp = SymObj("WallParams", "containers", label="wallParams", attrs={"widths": as_array(widths), "offsets": as_array(offs)})
        for c in [Gt(w, 0) for w in widths] + [Gt(vmid, -1), Lt(vmid, 1), Gt(real("smoothing"), 0), Gt(real("ratioPointsWall"), 0), Lt(real("ratioPointsWall"), 1),
                                               Gt(real("meanFreePathScale"), 0)]:
            it.assume(c)
        return eom, [wp, vmid], {}, {}

    def change(it, so, a, k):
        it.event(kind="contract-call", name="changePositionFalloffScale", args=list(a), obj=so)
    rets = sel(chk.summarize(MODULE, "EOM._updateGrid", mk, registry={"Grid3Scales.changePositionFalloffScale": change}))
    if not rets:
        chk.undecided.append("_updateGrid: no returning path")
    for i, p in enumerate(rets):
        calls = [e for e in p.events if e.get("name") == "changePositionFalloffScale"]
        if len(calls) != 1 or len(calls[0]["args"]) != 4:
            chk.vc(f"_updateGrid.one-remap-call.{i}", p.pc, sp.false, func=fn)
            continue
        tin, tout, t, c = calls[0]["args"]
        cp = c + t * sp.log(2) / 2
        right = [(1 - offs[f]) * widths[f] for f in range(NFLD)]
        left = [(-1 - offs[f]) * widths[f] for f in range(NFLD)]
        chk.vc(f"_updateGrid.wall-region-contains-every-field-wall.{i}", p.pc,
               And(*[Le(r_, cp + t) for r_ in right], *[Ge(l_, cp - t) for l_ in left]), func=fn)
        chk.vc(f"_updateGrid.wall-region-is-the-envelope.{i}", p.pc,
               And(Or(*[Eq(r_, cp + t) for r_ in right]), Or(*[Eq(l_, cp - t) for l_ in left])), func=fn)
        chk.canary(f"_updateGrid.envelope.{i}", p.pc, Eq(t, 0), func=fn)
        lo_tail = t * (sym.R(1, 2) + sym.R(105, 100) * real("smoothing")) / real("ratioPointsWall")
        chk.vc(f"_updateGrid.tails-long-enough-for-the-grid.{i}", p.pc, And(Ge(tin, lo_tail), Ge(tout, lo_tail)), func=fn)


def c_weight(chk):
    """The weight handed to the quadrature, dz/dchi from the grid, IS the derivative of the grid's position map (both grid classes):
    the contract of getCompactificationDerivatives that the pressure tail relies on (obligations shared with C17)."""
    from . import C17_grids as G
    from wgvc.api import deriv
    for module, cls, mk_obj, pre in (("grid", "Grid", G.make_grid, G.GRID_INV + G.CUBE),
                                     ("grid3Scales", "Grid3Scales", G.make_grid3, G.G3_INV + G.CUBE + [Gt(real("aIn"), 0), Gt(real("aOut"), 0)])):
        d, j = G._maps(chk, module, cls, mk_obj, pre)
        (G.grid_crosses if cls == "Grid" else G.grid3_crosses)(chk, d, j)
        fnq = f"{module}.{cls}.compactificationDerivatives"
        chk.vc(f"weight.{cls}.dzdchi-is-derivative-of-position-map", d.pc + j.pc, Eq(j.value[0], deriv(d.value[0], G.chi)), func=fnq, kind="lemma")
        chk.reach(f"weight.{cls}.dzdchi-is-derivative-of-position-map", d.pc + j.pc, func=fnq)


def c_wallProfile(chk):
    fn = f"{EOMQ}.wallProfile"
    z0, z1 = real("z0"), real("z1")
    pre = [Gt(real(f"width{f}"), 0) for f in range(NF)]
    for branch, zarg, zs in (("array", as_array([z0, z1]), [z0, z1]), ("scalar", z0, [z0])):
        def mk(it, zarg=zarg):
            for c in pre:
                it.assume(c)
            return make_eom(), [zarg, as_array([LOW]), as_array([HIGH]), wall_params()], {}, {}
        paths = sel(chk.summarize(MODULE, "EOM.wallProfile", mk, registry=REG_FIELDS))
        if len(paths) != 1:
            chk.undecided.append(f"wallProfile[{branch}]: {len(paths)} paths")
            continue
        p = paths[0]
        if branch == "array":
            # native cross-check / replay specification: the real EOM.wallProfile with real Fields / WallParams objects
            from wgvc.crosscheck import Cross

            def sample(rnd):
                env = {"z0": rnd.uniform(-3, 3), "z1": rnd.uniform(-3, 3)}
                for f in range(NF):
                    env.update({f"width{f}": rnd.uniform(0.2, 3), f"offset{f}": rnd.uniform(-2, 2), f"vevLow{f}": rnd.uniform(-5, 5), f"vevHigh{f}": rnd.uniform(-5, 5)})
                return env

            def scenario(env):
                arr = lambda xs: {"__stub__": "array", "data": xs}       # noqa: E731
                fields = lambda pre: {"__stub__": "real", "module": "WallGo.fields", "class": "Fields", "init": {"args": [[env[f"{pre}{f}"] for f in range(NF)]]}}   # noqa: E731
                wp = {"__stub__": "real", "module": "WallGo.containers", "class": "WallParams",
                      "init": {"kwargs": {"widths": arr([env[f"width{f}"] for f in range(NF)]), "offsets": arr([env[f"offset{f}"] for f in range(NF)])}}}
                return {"module": "WallGo.equationOfMotion", "method": "wallProfile", "args": [arr([env["z0"], env["z1"]]), fields("vevLow"), fields("vevHigh"), wp],
                        "self": {"__stub__": "real", "module": "WallGo.equationOfMotion", "class": "EOM", "attrs": {}}}
            chk.cross(Cross("EOM.wallProfile", [p], sample, scenario, result=lambda pth: [as_array(x) for x in pth.value], rtol=1e-9))
        fields, dphi = (as_array(x) for x in p.value)
        want_shape = (len(zs), NF) if branch == "array" else (1, NF)
        chk.vc(f"wallProfile.{branch}.shape", p.pc, sym.to_sym(fields.shape == want_shape and dphi.shape == want_shape), func=fn)
        if fields.shape != want_shape:
            continue
        for i, z in enumerate(zs):
            for f in range(NF):
                chk.vc(f"wallProfile.{branch}.gradient-is-derivative.point{i}.field{f}", p.pc,
                       Eq(dphi[i, f], deriv(fields[i, f], z)), func=fn, kind="lemma")
                chk.vc(f"wallProfile.{branch}.tanh-ansatz.point{i}.field{f}", p.pc, Eq(fields[i, f], profile_spec(z, f)), func=fn)
        chk.canary(f"wallProfile.{branch}.gradient", p.pc, Eq(dphi[0, 0], -deriv(fields[0, 0], zs[0])), func=fn)


def c_pressure_tail(chk):
    fn = f"{EOMQ}._intermediatePressureResults"
    NZ = 2
    zs = [real("xi0"), real("xi1")]
    Tprof = [real("Tprof0"), real("Tprof1")]
    vprof = [real("vprof0"), real("vprof1")]
    D00 = [[real(f"Delta00_{p}_{i}") for i in range(NZ)] for p in range(2)]
    dzdchi = [real("dzdchi0"), real("dzdchi1")]
    solx = [real("sol_w0"), real("sol_w1"), real("sol_o1")]
    mult = real("multiplier")

    def deriv_field(it, so, a, k):
        f, t = as_array(a[0]), as_array(a[1]).reshape(-1)
        it.event(kind="contract-call", name="derivField", fields=f, T=t)
        return as_array([[dV[g](f[i, 0], f[i, 1], t[i]) for g in range(NF)] for i in range(f.shape[0])])

    def msq_deriv(it, so, a, k):
        f = as_array(a[0])
        p = so.attrs["__index__"]
        return as_array([[dm2[p][g](f[i, 0], f[i, 1]) for g in range(NF)] for i in range(f.shape[0])])

    def poly_new(it, cref, a, k):
        o = SymObj("Polynomial", "polynomial", label=it.fresh_name("poly"), attrs={"coefficients": a[0]})
        it.event(kind="poly-new", obj=o.label, coefficients=a[0], nargs=len(a), kwargs=dict(k))
        return o

    def integrate(it, so, a, k):
        r = it.fresh_real("integral")
        it.event(kind="poly-integrate", obj=so.label, args=list(a), weight=k.get("weight"), result=r)
        return r

    def minimize(it, a, k):
        global LAST_MINIMIZE
        it.event(kind="minimize", x0=a[1], method=k.get("method"), bounds=k.get("bounds"))
        b = k.get("bounds")
        LAST_MINIMIZE = {"x0": a[1], "lb": b.attrs["lb"] if isinstance(b, SymObj) else None, "ub": b.attrs["ub"] if isinstance(b, SymObj) else None,
                         "pc": list(it.pc), "method": k.get("method"), "tol": k.get("tol"), "options": k.get("options"),
                         "other": sorted(set(k) - {"method", "tol", "options", "bounds", "args"})}
        return SymObj(None, None, attrs={"x": as_array(solx), "fun": it.fresh_real("action_min"), "success": it.fresh_bool("nm_success")}, label="OptimizeResult")
    reg = dict(REG_FIELDS)
    reg.update({"EffectivePotential.derivField": deriv_field, "Particle.msqDerivative": msq_deriv,
                "Polynomial.__new__": poly_new, "Polynomial.integrate": integrate,
                "EOM.findPlasmaProfile": lambda it, so, a, k: (as_array(Tprof), as_array(vprof)),
                "Grid.getCompactificationDerivatives": lambda it, so, a, k: (as_array(dzdchi), Opaque("dpz"), Opaque("dpp")),
                "BoltzmannBackground.__new__": lambda it, cref, a, k: SymObj("BoltzmannBackground", "containers", label="background",
                                                                            attrs={"args": list(a)})})
    ext = dict(stubs.EXTERNALS)
    ext["scipy.optimize.minimize"] = minimize
    ext["scipy.optimize.Bounds"] = lambda it, a, k: SymObj(None, None, label="Bounds", attrs={"lb": k.get("lb", a[0] if a else None), "ub": k.get("ub", a[1] if len(a) > 1 else None)})

    def mk(it):
        eom = make_eom(2)
        eom.attrs["grid"].attrs["xiValues"] = as_array(zs)
        eom.attrs["grid"].attrs.update(smoothing=real("smoothing"), ratioPointsWall=real("ratioPointsWall"))
        eom.attrs.update(nbrFields=NF, includeOffEq=False, wallThicknessBounds=(real("wmin"), real("wmax")),
                         wallOffsetBounds=(real("omin"), real("omax")))
        eom.attrs["thermo"].attrs["Tnucl"] = real("Tnucl")
        d00 = SymObj("Polynomial", "polynomial", label="Delta00", attrs={"coefficients": as_array(D00)})
        deltas = SymObj("BoltzmannDeltas", "containers", label="Deltas", attrs={"Delta00": d00})
        br = SymObj("BoltzmannResults", "results", label="boltzmannResults", attrs={"Deltas": deltas})
        low = as_array([LOW])
        high = as_array([HIGH])
        for arr in (low, high):
            pass
        lowF = SymObj(None, None, label="vevLowT", attrs={})
        for c in (Gt(real("Tnucl"), 0), Gt(mult, 0), Le(mult, 1)):
            it.assume(c)
        return eom, [wall_params("_in"), low, high, real("c1"), real("c2"), real("velocityMid"), br, real("Tplus"), real("Tminus")], \
            {"multiplier": mult}, {"eom": eom}
    # numpy arrays have no attribute overFieldPoints: Fields does (it is 0)
    from wgvc import builtins_model
    orig = builtins_model.value_getattr

    def patched(it, v, name):
        if isinstance(v, np.ndarray) and name == "overFieldPoints":
            return 0
        if isinstance(v, np.ndarray) and name == "overFields":
            return 1
        return orig(it, v, name)
    builtins_model.value_getattr = patched
    try:
        paths = sel(chk.summarize(MODULE, "EOM._intermediatePressureResults", mk, registry=reg, externals=ext))
    finally:
        builtins_model.value_getattr = orig
    chk.assume_note("Fields is modelled as a (points x fields) array with overFieldPoints = 0, overFields = 1 (src/WallGo/fields.py)")
    if not paths:
        chk.undecided.append("_intermediatePressureResults: no returning path")
    for i, p in enumerate(paths):
        pressure, wp, br, bg = p.value
        polys = [e for e in p.events if e.get("kind") == "poly-new"]
        ints = [e for e in p.events if e.get("kind") == "poly-integrate"]
        if len(polys) != 1 or len(ints) != 1 or ints[0]["obj"] != polys[0]["obj"]:
            chk.undecided.append("_intermediatePressureResults: expected one polynomial and one integral")
            continue
        # final wall parameters: multiplier * toWallParams(sol.x) + (1 - multiplier) * (clipped input)
        w_fin = as_array(wp.attrs["widths"]).reshape(-1)
        o_fin = as_array(wp.attrs["offsets"]).reshape(-1)
        coeffs = as_array(polys[0]["coefficients"]).reshape(-1)
        wgt = as_array(ints[0]["weight"]).reshape(-1) if ints[0]["weight"] is not None else None
        chk.vc(f"pressure.weight-is-minus-dzdchi.{i}", p.pc, And(*[Eq(wgt[k], -dzdchi[k]) for k in range(NZ)]) if wgt is not None and len(wgt) == NZ else sp.false, func=fn)
        chk.vc(f"pressure.is-the-integral.{i}", p.pc, Eq(pressure, ints[0]["result"]), func=fn)
        for k in range(NZ):
            phi = [LOW[f] + (HIGH[f] - LOW[f]) * (1 + sp.tanh(zs[k] / w_fin[f] + o_fin[f])) / 2 for f in range(NF)]
            dphidz = [(HIGH[f] - LOW[f]) / (2 * w_fin[f] * sp.cosh(zs[k] / w_fin[f] + o_fin[f])**2) for f in range(NF)]
            spec = 0
            for f in range(NF):
                dvout = sum(real(f"dof{q}") * dm2[q][f](*phi) * D00[q][k] for q in range(2)) / 2
                spec += (dV[f](*phi, Tprof[k]) + dvout) * dphidz[f]
            chk.vc(f"pressure.integrand.point{k}.{i}", p.pc, Eq(coeffs[k], spec), func=fn)
        chk.canary(f"pressure.integrand.{i}", p.pc, Eq(coeffs[0], 0), func=fn)
    # chain rule (calculus): sum_f dV/dphi_f(phi(z), T) phi_f'(z) = d/dz V(phi(z), T)
    z, Tc = real("z"), real("Tconst")
    phi = [profile_spec(z, f) for f in range(NF)]
    lhs = sum(dV[f](*phi, Tc) * deriv(phi[f], z) for f in range(NF))
    chk.vc("lemma.chain-rule.integrand-is-total-derivative", [Gt(real(f"width{f}"), 0) for f in range(NF)],
           Eq(lhs, deriv(Vz(*phi, Tc), z)), func="lemma", kind="lemma")
