"""C16 - spectral polynomial calculus is exact on the polynomial space of the grid.

BOUNDED stand-in (labelled as such, never counted as proved): the real Polynomial and Grid code is interpreted on the real
Gauss-Lobatto nodes of small grids (exact algebraic numbers) with SYMBOLIC coefficients, so each obligation holds for every
polynomial of the space on that grid, but only for the grid sizes listed in SIZES.
Per direction (z, pz, pp), with and without boundary points, in both bases:
  * evaluate returns the polynomial's value at an arbitrary point (and the grid values at grid points);
  * cardinal -> Chebyshev -> cardinal returns the same coefficients; evaluation agrees in both representations;
  * derivative returns the exact derivative at all grid points including the boundaries, from either representation;
  * integrate applies the weight (pi/D) h_i sqrt(1 - x_i^2), h_i = 1/2 at kept boundary nodes and at the rho_par = -1 node;
  * a rank-2 array is transformed independently along each axis (mixed Array / polynomial axes).
"""
from __future__ import annotations

import itertools
import numpy as np
import sympy as sp

from wgvc.api import *            # noqa: F401,F403
from wgvc import sym
from wgvc.builtins_model import as_array, elementwise, norm
from wgvc.interp import Native

PROPERTY = "C16"
LEVEL = "other"
EXPLANATION = ("Bounded stand-in for a property whose unbounded form (all grid sizes M, N) is out of reach of the VC generator: "
               "the real code is interpreted symbolically (all polynomials of the grid's space at once) on the exact Gauss-Lobatto nodes "
               "of the grid sizes listed in coverage.bounded; obligations are discharged by z3 but the bound on M, N makes this a bounded "
               "check, not a proof.")
MIN_OBLIGATIONS = 40
SIZES = [(3, 3), (4, 5)]
y = real("y")


def cheb_T(it, args, kwargs):
    n, x = args
    return elementwise(lambda nn, xx: sp.expand(sp.chebyshevt(int(nn), sym.to_sym(xx))), n, x)


def cheb_U(it, args, kwargs):
    n, x = args

    def f(nn, xx):
        nn = int(nn)
        if nn == -1:
            return 0
        return sp.expand(sp.chebyshevu(nn, sym.to_sym(xx)))
    return elementwise(f, n, x)


def mat_inv(it, args, kwargs):
    a = as_array(args[0])
    m = sp.Matrix(a.shape[0], a.shape[1], lambda i, j: sym.to_sym(a[i, j]))
    inv = m.inv()
    out = np.empty(a.shape, dtype=object)
    for i in range(a.shape[0]):
        for j in range(a.shape[1]):
            out[i, j] = sp.simplify(inv[i, j])
    return out


EXT = {"scipy.special.eval_chebyt": cheb_T, "scipy.special.eval_chebyu": cheb_U, "numpy.linalg.inv": mat_inv}


def np_divide_where(it, args, kwargs):
    a, b = args[0], args[1]
    w = kwargs.get("where")

    def f(x, yv, ww):
        if ww is False or ww is sp.false:
            return 0          # numpy leaves these entries uninitialised; the code never reads them (np.where picks the other branch)
        return norm(sym.to_sym(x) / sym.to_sym(yv))
    if w is None:
        from wgvc.builtins_model import binop
        import ast
        return binop(it, ast.Div(), a, b)
    return elementwise(f, a, b, w)


EXT["numpy.divide"] = np_divide_where


def make_grid(it, M, N):
    """Grid.__init__ is the real code (spectral spacing); only the coordinate caching (grid maps, C17) is skipped."""
    g = SymObj("Grid", "grid", label="grid")
    it.registry = dict(it.registry)
    it.registry["Grid._cacheCoordinates"] = lambda it2, so, a, k: None
    it.call_method(g, "__init__", [M, N, real("L"), real("T0")], {})
    return g


def space_poly(direction, endpoints, size, tag):
    """generic element of the polynomial space of one axis: value function P(t) and its number of free coefficients"""
    cs = [real(f"{tag}{k}") for k in range(size)]
    q = lambda t: sum(c * t**k for k, c in enumerate(cs))      # noqa: E731
    if endpoints:
        return q
    if direction in ("z", "pz"):
        return lambda t: (1 - t**2) * q(t)
    return lambda t: (1 - t) * q(t)


def axis_size(direction, endpoints, M, N):
    if direction == "z":
        return M - 1 + 2 * endpoints
    if direction == "pz":
        return N - 1 + 2 * endpoints
    return N - 1 + endpoints


def build(chk):
    sizes = SIZES      # (larger grids make the exact sympy inverses of the basis matrices impractically slow)
    for (M, N) in sizes:
        chk.bounded.append({"what": "all C16 obligations", "bound": f"grid size M={M}, N={N} (real Gauss-Lobatto nodes, symbolic coefficients)", "held": True})
        for direction in ("z", "pz", "pp"):
            for endpoints in (False, True):
                one_axis(chk, M, N, direction, endpoints)
    two_axes(chk, 3, 3)
    two_poly_axes(chk, 3, 3)
    chk.assume_note("scipy.special.eval_chebyt/eval_chebyu are the Chebyshev polynomials T_n, U_n (sympy closed forms); numpy.linalg.inv is the exact matrix inverse")


def simp(e):
    return sp.simplify(sp.nsimplify(sym.to_sym(e))) if False else sp.simplify(sym.to_sym(e))


def one_axis(chk, M, N, direction, endpoints):
    tag = f"M{M}N{N}.{direction}.{'with' if endpoints else 'no'}-endpoints"
    fnq = "polynomial.Polynomial"
    size = axis_size(direction, endpoints, M, N)
    P = space_poly(direction, endpoints, size, "a")
    results = {}

    def run(name, body):
        """interpret `body(it, grid, poly_factory)` as one path and return its value"""
        def mk_run(it):
            grid = make_grid(it, M, N)
            nodes = it.call_method(grid, "getCompactCoordinates", [endpoints, direction], {})
            full = it.call_method(grid, "getCompactCoordinates", [True, direction], {})
            coeffs = as_array([P(x) for x in as_array(nodes).reshape(-1)])

            def new_poly(c, basis="Cardinal", ep=endpoints):
                from wgvc.interp import ClassRef
                return it.instantiate(ClassRef("polynomial", "Polynomial"), [c, grid, basis, direction, ep], {})
            return body(it, grid, new_poly, coeffs, as_array(nodes).reshape(-1), as_array(full).reshape(-1))
        from wgvc.interp import enumerate_paths
        paths = enumerate_paths(lambda it: (mk_run(it), {}), externals=EXT)
        chk.path_count += len(paths)
        ok = [p for p in paths if p.outcome == "return"]
        for p in paths:
            chk.inlined |= p.inlined
        if len(ok) != 1:
            chk.undecided.append(f"{tag}.{name}: {len(ok)} returning paths of {len(paths)} ({[p.exc for p in paths if p.outcome == 'raise'][:1]})")
            return None
        return ok[0]

    for fq in ("Polynomial.__init__", "Polynomial.changeBasis", "Polynomial.evaluate", "Polynomial.cardinal", "Polynomial.chebyshev",
               "Polynomial.integrate", "Polynomial.derivative", "Polynomial.derivMatrix", "Polynomial._cardinalDeriv",
               "Polynomial._chebyshevDeriv", "Polynomial._checkCoefficients"):
        chk.under_contract("polynomial", fq)
    chk.under_contract("grid", "Grid.__init__")
    chk.under_contract("grid", "Grid.getCompactCoordinates")

    # 1. evaluate in the cardinal representation
    p1 = run("evaluate.cardinal", lambda it, g, new, c, nodes, full: it.call_method(new(c), "evaluate", [as_array([y])], {}))
    if p1 is not None:
        chk.vc(f"{tag}.evaluate.cardinal", p1.pc, Eq(simp(p1.value), simp(P(y))), func=f"{fnq}.evaluate")
        chk.canary(f"{tag}.evaluate.cardinal", p1.pc, Eq(simp(p1.value), simp(P(y)) + 1), func=f"{fnq}.evaluate")

    # 2. basis change round trip and evaluation in the Chebyshev representation
    def body2(it, g, new, c, nodes, full):
        poly = new(c.copy())
        it.call_method(poly, "changeBasis", ["Chebyshev"], {})
        cheb = as_array(poly.attrs["coefficients"]).copy()
        val = it.call_method(poly, "evaluate", [as_array([y])], {})
        it.call_method(poly, "changeBasis", ["Cardinal"], {})
        back = as_array(poly.attrs["coefficients"]).copy()
        return (cheb, val, back, c)
    p2 = run("changeBasis", body2)
    if p2 is not None:
        cheb, val, back, c = p2.value
        chk.vc(f"{tag}.evaluate.chebyshev", p2.pc, Eq(simp(val), simp(P(y))), func=f"{fnq}.evaluate")
        chk.vc(f"{tag}.changeBasis.round-trip", p2.pc, And(*[Eq(simp(a), simp(b)) for a, b in zip(back.reshape(-1), c.reshape(-1))]),
               func=f"{fnq}.changeBasis")

    # 3. derivative from both representations, at all grid points including the boundaries
    for basis in ("Cardinal", "Chebyshev"):
        def body3(it, g, new, c, nodes, full, basis=basis):
            poly = new(c.copy())
            if basis == "Chebyshev":
                it.call_method(poly, "changeBasis", ["Chebyshev"], {})
            d = it.call_method(poly, "derivative", [0], {})
            return (as_array(d.attrs["coefficients"]), d.attrs["basis"], d.attrs["endpoints"], full)
        p3 = run(f"derivative.{basis}", body3)
        if p3 is not None:
            dc, b, ep, full = p3.value
            want = [sp.diff(P(y), y).subs(y, x) for x in full]
            good_meta = tuple(b) == ("Cardinal",) and tuple(ep) == (True,) and dc.shape == (len(full),)
            chk.vc(f"{tag}.derivative.{basis}.representation", p3.pc, sym.to_sym(bool(good_meta)), func=f"{fnq}.derivative")
            if good_meta:
                chk.vc(f"{tag}.derivative.{basis}.exact", p3.pc, And(*[Eq(simp(a), simp(w)) for a, w in zip(dc.reshape(-1), want)]),
                       func=f"{fnq}.derivative")
                chk.canary(f"{tag}.derivative.{basis}.exact", p3.pc, Eq(simp(dc.reshape(-1)[0]), simp(want[0]) + 1), func=f"{fnq}.derivative")

    # 4. integrate: weights of the Gauss-Chebyshev-Lobatto rule with the sqrt(1 - x^2) factor
    wts = [real(f"wgt{k}") for k in range(size)]

    def body4(it, g, new, c, nodes, full):
        poly = new(c.copy())
        r = it.call_method(poly, "integrate", [], {"weight": as_array(wts)})
        return (r, nodes)
    p4 = run("integrate", body4)
    if p4 is not None:
        r, nodes = p4.value
        D = {"z": M, "pz": N, "pp": N - 1}[direction]
        spec = 0
        for k, x in enumerate(nodes):
            h = 1
            if endpoints and k in (0, len(nodes) - 1):
                h = sp.Rational(1, 2)
            if direction == "pp" and not endpoints and k == 0:
                h = sp.Rational(1, 2)
            spec += sp.pi / D * h * sp.sqrt(1 - x**2) * wts[k] * P(x)
        chk.vc(f"{tag}.integrate.gcl-weights", p4.pc, Eq(simp(r), simp(spec)), func=f"{fnq}.integrate")
        chk.canary(f"{tag}.integrate.gcl-weights", p4.pc, Eq(simp(r), simp(spec) + 1), func=f"{fnq}.integrate")


def two_poly_axes(chk, M, N):
    """rank 2 with TWO polynomial axes (z, pz) and every combination of endpoint flags and bases: the value at a generic point (x*, y*) is
    that of the bivariate polynomial the grid values were taken from - axes act independently, nothing carries over from one axis to the
    next (a sum of two product polynomials, so axis mixing shows)."""
    fnq = "polynomial.Polynomial"
    ys = real("ystar")
    from wgvc.interp import enumerate_paths, ClassRef
    for epz, epp in itertools.product((False, True), repeat=2):
        A, C_ = (space_poly("z", epz, axis_size("z", epz, M, N), t) for t in ("a", "c"))
        B, D_ = (space_poly("pz", epp, axis_size("pz", epp, M, N), t) for t in ("b", "d"))

        def P2(u, v, A=A, B=B, C_=C_, D_=D_):
            return A(u) * B(v) + C_(u) * D_(v)
        for bases in (("Chebyshev", "Chebyshev"), ("Cardinal", "Chebyshev"), ("Chebyshev", "Cardinal")):
            tag = f"M{M}N{N}.rank2-poly.z-{'with' if epz else 'no'}.pz-{'with' if epp else 'no'}.{bases[0]}-{bases[1]}"

            def body(it, epz=epz, epp=epp, bases=bases, P2=P2):
                grid = make_grid(it, M, N)
                nz = as_array(it.call_method(grid, "getCompactCoordinates", [epz, "z"], {})).reshape(-1)
                npz = as_array(it.call_method(grid, "getCompactCoordinates", [epp, "pz"], {})).reshape(-1)
                c = as_array([[P2(u, v) for v in npz] for u in nz])
                poly = it.instantiate(ClassRef("polynomial", "Polynomial"), [c, grid, ("Cardinal", "Cardinal"), ("z", "pz"), (epz, epp)], {})
                it.call_method(poly, "changeBasis", [bases], {})
                return it.call_method(poly, "evaluate", [as_array([[y], [ys]])], {}), {}
            paths = [p for p in enumerate_paths(body, externals=EXT) if p.outcome == "return"]
            chk.path_count += len(paths)
            if len(paths) != 1:
                chk.undecided.append(f"{tag}: {len(paths)} returning paths")
                continue
            val = paths[0].value
            val = as_array(val).reshape(-1)[0] if isinstance(val, np.ndarray) else val
            chk.vc(f"{tag}.evaluate", paths[0].pc, Eq(simp(val), simp(P2(y, ys))), func=f"{fnq}.evaluate")
    # two axes of the SAME direction and endpoint flag converted in OPPOSITE directions by one changeBasis call (nothing computed for one
    # axis may be reused for the other unless the conversion is the same)
    for ep in (False, True):
        A, C_ = (space_poly("pz", ep, axis_size("pz", ep, M, N), t) for t in ("a", "c"))
        B, D_ = (space_poly("pz", ep, axis_size("pz", ep, M, N), t) for t in ("b", "d"))

        def Q2(u, v, A=A, B=B, C_=C_, D_=D_):
            return A(u) * B(v) + C_(u) * D_(v)
        tag = f"M{M}N{N}.rank2-poly.pz-pz.{'with' if ep else 'no'}-endpoints.opposite-conversions"

        def body2(it, ep=ep, Q2=Q2):
            grid = make_grid(it, M, N)
            nodes = as_array(it.call_method(grid, "getCompactCoordinates", [ep, "pz"], {})).reshape(-1)
            c = as_array([[Q2(u, v) for v in nodes] for u in nodes])
            poly = it.instantiate(ClassRef("polynomial", "Polynomial"), [c, grid, ("Cardinal", "Cardinal"), ("pz", "pz"), (ep, ep)], {})
            it.call_method(poly, "changeBasis", [("Cardinal", "Chebyshev")], {})
            it.call_method(poly, "changeBasis", [("Chebyshev", "Cardinal")], {})
            return it.call_method(poly, "evaluate", [as_array([[y], [ys]])], {}), {}
        paths = [p for p in enumerate_paths(body2, externals=EXT) if p.outcome == "return"]
        chk.path_count += len(paths)
        if len(paths) != 1:
            chk.undecided.append(f"{tag}: {len(paths)} returning paths")
            continue
        val = paths[0].value
        val = as_array(val).reshape(-1)[0] if isinstance(val, np.ndarray) else val
        chk.vc(f"{tag}.evaluate", paths[0].pc, Eq(simp(val), simp(Q2(y, ys))), func=f"{fnq}.changeBasis")
    # rank 3 (Array, z, pz): a derivative along the LAST axis leaves the order of the other axes alone (axis bookkeeping beyond rank 2)
    tag = f"M{M}N{N}.rank3.derivative-along-last-axis"
    rowsA = [space_poly("z", True, axis_size("z", True, M, N), t) for t in ("a", "c")]
    rowsB = [space_poly("pz", True, axis_size("pz", True, M, N), t) for t in ("b", "d")]

    def body3(it):
        grid = make_grid(it, M, N)
        nz = as_array(it.call_method(grid, "getCompactCoordinates", [True, "z"], {})).reshape(-1)
        npz = as_array(it.call_method(grid, "getCompactCoordinates", [True, "pz"], {})).reshape(-1)
        c = as_array([[[A_(u) * B_(v) for v in npz] for u in nz] for A_, B_ in zip(rowsA, rowsB)])
        poly = it.instantiate(ClassRef("polynomial", "Polynomial"), [c, grid, ("Array", "Cardinal", "Cardinal"), ("Array", "z", "pz"), (False, True, True)], {})
        d = it.call_method(poly, "derivative", [2], {})
        return (as_array(d.attrs["coefficients"]), nz, npz), {}
    allp = enumerate_paths(body3, externals=EXT)
    paths = [p for p in allp if p.outcome == "return"]
    chk.path_count += len(paths)
    raised = [p for p in allp if p.outcome == "raise"]
    if not paths and raised and len(raised) == len(allp):
        # every path ends in an exception (on a fully concrete grid): the operation fails where the property says it returns the derivative
        chk.vc(f"{tag}.no-exception", [], sp.false, func=f"{fnq}.derivative", meta={"exception": raised[0].exc.cls})
    elif len(paths) != 1:
        chk.undecided.append(f"{tag}: {len(paths)} returning paths")
    else:
        dc, nz, npz = paths[0].value
        ok = dc.shape == (2, len(nz), len(npz))
        chk.vc(f"{tag}.shape", [], sym.to_sym(bool(ok)), func=f"{fnq}.derivative")
        if ok:
            goals = []
            for r_, (A_, B_) in enumerate(zip(rowsA, rowsB)):
                for i_, u in enumerate(nz):
                    for j_, v in enumerate(npz):
                        goals.append(Eq(simp(dc[r_, i_, j_]), simp(A_(u) * sp.diff(B_(y), y).subs(y, v))))
            chk.vc(f"{tag}.exact", [], And(*goals), func=f"{fnq}.derivative")
    chk.bounded.append({"what": "rank-2 evaluate with two polynomial axes", "bound": f"axes (z, pz), M={M}, N={N}, all endpoint combinations, three basis pairs", "held": True})


def two_axes(chk, M, N):
    """rank 2, axes (Array, pz): operations act along the polynomial axis only, independently per row"""
    tag = f"M{M}N{N}.rank2"
    fnq = "polynomial.Polynomial"
    size = N - 1
    rows = [space_poly("pz", False, size, t) for t in ("a", "b")]

    def body(it):
        grid = make_grid(it, M, N)
        nodes = as_array(it.call_method(grid, "getCompactCoordinates", [False, "pz"], {})).reshape(-1)
        full = as_array(it.call_method(grid, "getCompactCoordinates", [True, "pz"], {})).reshape(-1)
        c = as_array([[R_(x) for x in nodes] for R_ in rows])
        from wgvc.interp import ClassRef
        poly = it.instantiate(ClassRef("polynomial", "Polynomial"), [c, grid, ("Array", "Cardinal"), ("Array", "pz"), False], {})
        it.call_method(poly, "changeBasis", [("Array", "Chebyshev")], {})
        d = it.call_method(poly, "derivative", [1], {})
        return (as_array(d.attrs["coefficients"]), d.attrs["basis"], d.attrs["endpoints"], full), {}
    from wgvc.interp import enumerate_paths
    paths = [p for p in enumerate_paths(body, externals=EXT) if p.outcome == "return"]
    chk.path_count += len(paths)
    if len(paths) != 1:
        chk.undecided.append(f"{tag}: {len(paths)} returning paths")
        return
    dc, b, ep, full = paths[0].value
    ok = dc.shape == (2, len(full)) and tuple(b) == ("Array", "Cardinal") and tuple(ep) == (False, True)
    chk.vc(f"{tag}.derivative.shape-and-representation", [], sym.to_sym(bool(ok)), func=f"{fnq}.derivative")
    if ok:
        for r_, R_ in enumerate(rows):
            want = [sp.diff(R_(y), y).subs(y, x) for x in full]
            chk.vc(f"{tag}.derivative.row{r_}", [], And(*[Eq(simp(a), simp(w)) for a, w in zip(dc[r_], want)]), func=f"{fnq}.derivative")
