"""C14 - collision data act identically after loading, basis change and interpolation.

The property quantifies over 1..3 particles and small grid sizes; the real code is interpreted with a SYMBOLIC collision tensor
(every entry a free real) for the particle counts / sizes listed in CASES, so each obligation covers every tensor of that shape:
  * newFromDirectory: every ordered pair (i, j) lands at [i,:,:,j,:,:] with exactly the numbers of its own file; a missing file,
    a target grid larger than the stored one, and a size mismatch without interpolation raise CollisionLoadError;
  * BoltzmannSolver.loadCollisions: on every exceptional path the previously loaded array is still installed;
  * changeBasis: applying the operator to any distribution gives the same result before and after (inverse-transpose rule);
  * interpolateCollisionArray: for each pair (a, b) the result is the source operator evaluated at the target grid points,
    truncated to the low orders (for more than one particle: finding F2, fixed).
"""
from __future__ import annotations

import pathlib
import numpy as np
import sympy as sp

from wgvc.api import *            # noqa: F401,F403
from wgvc import sym
from wgvc.builtins_model import as_array, norm
from wgvc.interp import enumerate_paths, ClassRef, Closure
from wgvc import source
from .C16_polynomial import EXT as POLY_EXT, make_grid

PROPERTY = "C14"
LEVEL = "proof"
MIN_OBLIGATIONS = 12
M = 3


def particles(n):
    return [SymObj("Particle", "particle", label=f"particle{i}", attrs={"name": f"p{i}"}) for i in range(n)]


def tensor(P, n, tag="C"):
    out = np.empty((P, n, n, P, n, n), dtype=object)
    for idx in np.ndindex(out.shape):
        out[idx] = real(f"{tag}_{'_'.join(map(str, idx))}")
    return out


def h5_stub(files, log):
    """assumed contract of h5py.File: opening a missing file raises FileNotFoundError; otherwise a mapping with 'metadata'.attrs
    and one dataset"""
    def open_(it, args, kwargs):
        name = args[0]
        log.append(name)
        if name not in files:
            raise PyExc("FileNotFoundError", (name,))
        return files[name]
    return open_


def file_obj(size, btype, dsname, data):
    meta = SymObj(None, None, label="metadata", attrs={"attrs": {"Basis Size": size, "Basis Type": btype}})
    return {"metadata": meta, dsname: data}


def run_static(chk, module, qualname, argsf, externals=None, registry=None):
    fi = chk.under_contract(module, qualname)

    def run(it):
        args, kwargs, state = argsf(it)
        clo = Closure(fi.node, it.module_env(module), module, qualname)
        return it.call_closure(clo, list(args), dict(kwargs)), state
    paths = enumerate_paths(run, externals=externals, registry=registry)
    chk.path_count += len(paths)
    for p in paths:
        chk.inlined |= p.inlined
    return paths


def build(chk):
    chk.assume_note("assumed contract: h5py.File raises FileNotFoundError for a missing file and otherwise yields the stored metadata and dataset; "
                    "copy.deepcopy shares nothing with its argument; numpy.linalg.inv is the exact inverse")
    for fq in ("CollisionArray.__init__", "CollisionArray.newFromPolynomial", "CollisionArray.changeBasis"):
        chk.under_contract("collisionArray", fq)
    c_load(chk)
    c_load_collisions(chk)
    c_change_basis(chk)
    c_change_basis_history(chk)
    c_interpolate(chk)


def c_load(chk):
    fn = "collisionArray.CollisionArray.newFromDirectory"
    ext = dict(POLY_EXT)
    ext["codecs.decode"] = lambda it, a, k: a[0]
    root = pathlib.PurePosixPath("/collisions")
    for P in (1, 2, 3):
        N = 3
        n = N - 1
        data = {(i, j): as_array([[[[real(f"d{i}{j}_{a}{b}{c}{d}") for d in range(n)] for c in range(n)] for b in range(n)] for a in range(n)])
                for i in range(P) for j in range(P)}

        def files_ok(size=N):
            return {str(root / f"collisions_p{i}_p{j}.hdf5"): file_obj(size, "Chebyshev", f"p{i}, p{j}", data[(i, j)]) for i in range(P) for j in range(P)}
        # (a) complete directory, same size, same basis
        log = []

        def argsf(it, files=files_ok()):
            ex = dict(ext)
            ex["h5py.File"] = h5_stub(files, log)
            it.externals = ex
            grid = make_grid(it, M, N)
            return [root, grid, "Chebyshev", particles(P)], {}, {}
        paths = run_static(chk, "collisionArray", "CollisionArray.newFromDirectory", argsf, externals=ext)
        rets = [p for p in paths if p.outcome == "return"]
        if len(rets) != 1:
            chk.undecided.append(f"newFromDirectory[P={P}]: {len(rets)} returning paths ({[p.exc for p in paths][:2]})")
        else:
            arr = as_array(rets[0].value.attrs["polynomialData"].attrs["coefficients"])
            ok_shape = arr.shape == (P, n, n, P, n, n)
            chk.vc(f"newFromDirectory.P{P}.shape", [], sym.to_sym(bool(ok_shape)), func=fn)
            if ok_shape:
                chk.vc(f"newFromDirectory.P{P}.per-pair-placement", [],
                       And(*[Eq(arr[i, a, b, j, c, d], data[(i, j)][a, b, c, d]) for i in range(P) for j in range(P)
                             for a in range(n) for b in range(n) for c in range(n) for d in range(n)]), func=fn)
                chk.canary(f"newFromDirectory.P{P}.per-pair-placement", [], Eq(arr[0, 0, 1, P - 1, 0, 0], data[(P - 1, 0)][0, 1, 0, 0] + 1), func=fn)
        # (b) every single missing file -> CollisionLoadError
        for (mi, mj) in [(i, j) for i in range(P) for j in range(P)]:
            files = files_ok()
            del files[str(root / f"collisions_p{mi}_p{mj}.hdf5")]

            def argsf_m(it, files=files):
                ex = dict(ext)
                ex["h5py.File"] = h5_stub(files, [])
                it.externals = ex
                return [root, make_grid(it, M, N), "Chebyshev", particles(P)], {}, {}
            paths = run_static(chk, "collisionArray", "CollisionArray.newFromDirectory", argsf_m, externals=ext)
            kinds = sorted({(p.outcome, p.exc.cls if p.exc else None) for p in paths})
            chk.vc(f"newFromDirectory.P{P}.missing-file-{mi}{mj}.raises-CollisionLoadError", [],
                   sym.to_sym(kinds == [("raise", "CollisionLoadError")]), func=fn)
    # (c) target grid larger than stored; (d) stored larger than target without interpolation
    for label, stored, target, kw in (("oversized-target", 3, 5, {}), ("mismatch-no-interpolation", 5, 3, {"bInterpolate": False})):
        P = 1
        n = stored - 1
        dat = as_array([[[[real(f"e_{a}{b}{c}{d}") for d in range(n)] for c in range(n)] for b in range(n)] for a in range(n)])
        files = {str(root / "collisions_p0_p0.hdf5"): file_obj(stored, "Chebyshev", "p0, p0", dat)}

        def argsf_c(it, files=files, target=target, kw=kw):
            ex = dict(ext)
            ex["h5py.File"] = h5_stub(files, [])
            it.externals = ex
            return [root, make_grid(it, M, target), "Chebyshev", particles(1)], kw, {}
        paths = run_static(chk, "collisionArray", "CollisionArray.newFromDirectory", argsf_c, externals=ext)
        kinds = sorted({(p.outcome, p.exc.cls if p.exc else None) for p in paths})
        chk.vc(f"newFromDirectory.{label}.raises-CollisionLoadError", [], sym.to_sym(kinds == [("raise", "CollisionLoadError")]), func=fn)


def c_load_collisions(chk):
    fn = "boltzmann.BoltzmannSolver.loadCollisions"
    old = SymObj("CollisionArray", "collisionArray", label="previously-loaded")
    new = SymObj("CollisionArray", "collisionArray", label="freshly-loaded")

    def loader(it, cref, a, k):
        if it.decide_free():
            raise PyExc("CollisionLoadError", ("load failed",))
        if it.decide_free():
            raise PyExc("AssertionError", ("files of different sizes",))
        return new

    def mk(it):
        bs = SymObj("BoltzmannSolver", "boltzmann", label="solver",
                    attrs={"collisionArray": old, "grid": Opaque("grid"), "basisN": "Chebyshev", "offEqParticles": Opaque("particles")})
        return bs, [Opaque("directory")], {}, {"bs": bs}
    paths = chk.summarize("boltzmann", "BoltzmannSolver.loadCollisions", mk, registry={"CollisionArray.newFromDirectory": loader})
    seen = set()
    for i, p in enumerate(paths):
        bs = p.state["bs"] if p.state else None
        if p.outcome == "raise":
            seen.add(p.exc.cls)
            # the state handed back by the factory is the object the method ran on
            chk.vc(f"loadCollisions.failure-keeps-previous-array.{p.exc.cls}.{i}", p.pc,
                   sym.to_sym(bs is not None and bs.attrs["collisionArray"] is old), func=fn, kind="frame")
        elif p.outcome == "return":
            seen.add("ok")
            chk.vc(f"loadCollisions.success-installs-complete-array.{i}", p.pc, sym.to_sym(bs.attrs["collisionArray"] is new), func=fn, kind="frame")
    if seen != {"ok", "CollisionLoadError", "AssertionError"}:
        chk.undecided.append(f"loadCollisions: outcomes {sorted(seen)}")


def apply_operator(C, f):
    """(C f)[a, alpha, beta] = sum_{b, j, k} C[a, alpha, beta, b, j, k] f[b, j, k]"""
    P, n = C.shape[0], C.shape[1]
    out = np.empty((P, n, n), dtype=object)
    for a in range(P):
        for al in range(n):
            for be in range(n):
                out[a, al, be] = sum(C[a, al, be, b, j, k] * f[b, j, k] for b in range(P) for j in range(n) for k in range(n))
    return out


def c_change_basis(chk):
    fn = "collisionArray.CollisionArray.changeBasis"
    P, N = 1, 3
    n = N - 1
    for start, target in (("Chebyshev", "Cardinal"), ("Cardinal", "Chebyshev")):
        C0 = tensor(P, n)
        f0 = as_array([[[real(f"f_{b}{j}{k}") for k in range(n)] for j in range(n)] for b in range(P)])

        def body(it, start=start, target=target):
            grid = make_grid(it, M, N)
            poly = it.instantiate(ClassRef("polynomial", "Polynomial"),
                                  [C0.copy(), grid, ("Array", "Cardinal", "Cardinal", "Array", start, start), ("Array", "pz", "pp", "Array", "pz", "pp"), False], {})
            ca = it.call(it.getattr(ClassRef("collisionArray", "CollisionArray"), "newFromPolynomial"), [poly, particles(P)], {})
            out = it.call_method(ca, "changeBasis", [target], {})
            fpoly = it.instantiate(ClassRef("polynomial", "Polynomial"), [f0.copy(), grid, ("Array", start, start), ("Array", "pz", "pp"), False], {})
            it.call_method(fpoly, "changeBasis", [("Array", target, target)], {})
            return (as_array(out.attrs["polynomialData"].attrs["coefficients"]), as_array(fpoly.attrs["coefficients"]), out.attrs["basisType"]), {}
        paths = [p for p in enumerate_paths(body, externals=POLY_EXT) if p.outcome == "return"]
        chk.path_count += len(paths)
        if len(paths) != 1:
            chk.undecided.append(f"changeBasis[{start}->{target}]: {len(paths)} returning paths")
            continue
        C1, f1, bt = paths[0].value
        before, after = apply_operator(C0, f0), apply_operator(C1, f1)
        goals = [Eq(sp.expand(sp.simplify(a_ - b_)), 0) for a_, b_ in zip(before.reshape(-1), after.reshape(-1))]
        chk.vc(f"changeBasis.{start}-to-{target}.operator-action-unchanged", [], And(*goals), func=fn)
        chk.vc(f"changeBasis.{start}-to-{target}.basis-recorded", [], sym.to_sym(bt == target), func=fn)
        chk.canary(f"changeBasis.{start}-to-{target}", [], Eq(sp.expand(sp.simplify(before.reshape(-1)[0] - 2 * after.reshape(-1)[0])), 0), func=fn)


def c_change_basis_history(chk):
    """A second, OPPOSITE basis change on the same grid object (another array, or a reload for a solver with the other momentum basis) is as
    good as the first: nothing the first conversion may have left on the grid or its polynomials is reused for a different conversion."""
    fn = "collisionArray.CollisionArray.changeBasis"
    P, N = 1, 3
    n = N - 1
    for first, second in (("Chebyshev", "Cardinal"), ("Cardinal", "Chebyshev")):
        C0, D0 = tensor(P, n), tensor(P, n, tag="D")
        g0 = as_array([[[real(f"g_{b}{j}{k}") for k in range(n)] for j in range(n)] for b in range(P)])

        def body(it, first=first, second=second):
            grid = make_grid(it, M, N)

            def coll(T, basis):
                poly = it.instantiate(ClassRef("polynomial", "Polynomial"),
                                      [T.copy(), grid, ("Array", "Cardinal", "Cardinal", "Array", basis, basis), ("Array", "pz", "pp", "Array", "pz", "pp"), False], {})
                return it.call(it.getattr(ClassRef("collisionArray", "CollisionArray"), "newFromPolynomial"), [poly, particles(P)], {})
            it.call_method(coll(C0, first), "changeBasis", [second], {})            # first conversion on this grid: first -> second
            out = it.call_method(coll(D0, second), "changeBasis", [first], {})      # then the opposite one, on another array
            gpoly = it.instantiate(ClassRef("polynomial", "Polynomial"), [g0.copy(), grid, ("Array", second, second), ("Array", "pz", "pp"), False], {})
            it.call_method(gpoly, "changeBasis", [("Array", first, first)], {})
            return (as_array(out.attrs["polynomialData"].attrs["coefficients"]), as_array(gpoly.attrs["coefficients"])), {}
        paths = [p for p in enumerate_paths(body, externals=POLY_EXT) if p.outcome == "return"]
        chk.path_count += len(paths)
        if len(paths) != 1:
            chk.undecided.append(f"changeBasis history[{first}->{second}, then back]: {len(paths)} returning paths")
            continue
        D1, g1 = paths[0].value
        before, after = apply_operator(D0, g0), apply_operator(D1, g1)
        goals = [Eq(sp.expand(sp.simplify(a_ - b_)), 0) for a_, b_ in zip(before.reshape(-1), after.reshape(-1))]
        chk.vc(f"changeBasis.after-{first}-to-{second}.opposite-conversion-on-the-same-grid.operator-action-unchanged", [], And(*goals), func=fn)


def c_interpolate(chk):
    fn = "collisionArray.CollisionArray.interpolateCollisionArray"
    for P in ((1, 2, 3) if chk.tier == "thorough" else (1, 2)):
        Ns, Nt = 5, 3
        ns, nt = Ns - 1, Nt - 1
        C0 = tensor(P, ns)

        def body(it, P=P):
            src_grid = make_grid(it, M, Ns)
            tgt_grid = make_grid(it, M, Nt)
            poly = it.instantiate(ClassRef("polynomial", "Polynomial"),
                                  [C0.copy(), src_grid, ("Array", "Cardinal", "Cardinal", "Array", "Chebyshev", "Chebyshev"),
                                   ("Array", "pz", "pp", "Array", "pz", "pp"), False], {})
            src = it.call(it.getattr(ClassRef("collisionArray", "CollisionArray"), "newFromPolynomial"), [poly, particles(P)], {})
            out = it.call(it.getattr(ClassRef("collisionArray", "CollisionArray"), "interpolateCollisionArray"), [src, tgt_grid], {})
            # reference: evaluate the source operator (pz, pp cardinal axes) at each target grid point
            rz = as_array(tgt_grid.attrs["rzValues"]).reshape(-1)
            rp = as_array(tgt_grid.attrs["rpValues"]).reshape(-1)
            ref = np.empty((P, nt, nt, P, nt, nt), dtype=object)
            for al in range(nt):
                for be in range(nt):
                    val = as_array(it.call_method(poly, "evaluate", [as_array([[rz[al]], [rp[be]]]), (1, 2)], {}))   # shape (1, P, P, ns, ns)
                    for a in range(P):
                        for b in range(P):
                            for j in range(nt):
                                for k in range(nt):
                                    ref[a, al, be, b, j, k] = val[0, a, b, j, k]
            return (as_array(out.attrs["polynomialData"].attrs["coefficients"]), ref, as_array(src.attrs["polynomialData"].attrs["coefficients"])), {}
        paths = [p for p in enumerate_paths(body, externals=POLY_EXT) if p.outcome == "return"]
        chk.path_count += len(paths)
        if len(paths) != 1:
            chk.undecided.append(f"interpolateCollisionArray[P={P}]: {len(paths)} returning paths")
            continue
        out, ref, src_after = paths[0].value
        ok = out.shape == ref.shape
        chk.vc(f"interpolateCollisionArray.P{P}.shape", [], sym.to_sym(bool(ok)), func=fn)
        if ok:
            for a in range(P):
                for b in range(P):
                    goals = [Eq(sp.expand(out[a, al, be, b, j, k] - ref[a, al, be, b, j, k]), 0)
                             for al in range(nt) for be in range(nt) for j in range(nt) for k in range(nt)]
                    chk.vc(f"interpolateCollisionArray.P{P}.pair{a}{b}.is-source-operator-at-target-points", [], And(*goals), func=fn)
        chk.vc(f"interpolateCollisionArray.P{P}.source-untouched", [],
               sym.to_sym(all(x is y or x == y for x, y in zip(src_after.reshape(-1), C0.reshape(-1)))), func=fn, kind="frame")
