"""C17 - grid coordinate maps are monotone bijections with consistent Jacobians.

For Grid and Grid3Scales, on a generic compact point (chi, rho_z, rho_par) of the open cube:
  * compactificationDerivatives == d(decompactify)/d(compact coordinate), all three directions;
  * each Jacobian is positive under the class invariant  => the map is strictly increasing;
  * the compact origin goes to the wall centre (0 for Grid), p_z(0) = 0, p_par(-1) = 0;
  * Grid3Scales: slope at the centre == wallThickness / ratioPointsWall (with aIn, aOut from _updateParameters);
  * compactify(decompactify(.)) == identity  (Grid3Scales inherits Grid.compactify: known finding F3);
  * the cached coordinates/Jacobians equal the maps of the *current* parameters after every change* method
    (rescaling == constructing anew);
  * the callers (EOM._updateGrid, WallGoManager.buildGrid) establish the asserts of _updateParameters.
"""
from __future__ import annotations

import numpy as np
import sympy as sp

from wgvc.api import *            # noqa: F401,F403
from wgvc import sym
from wgvc.builtins_model import as_array
from wgvc.smt import quick_sat

PROPERTY = "C17"
MIN_OBLIGATIONS = 30
chi, rz, rp = real("chi"), real("rz"), real("rp")
CUBE = [Gt(chi, -1), Lt(chi, 1), Gt(rz, -1), Lt(rz, 1), Ge(rp, -1), Lt(rp, 1)]


def make_grid():
    g = SymObj("Grid", "grid", label="grid")
    g.attrs.update(positionFalloff=real("positionFalloff"), momentumFalloffT=real("momentumFalloffT"),
                   M=integer("M"), N=integer("N"), spacing="Spectral")
    return g


GRID_INV = [Gt(real("positionFalloff"), 0), Gt(real("momentumFalloffT"), 0)]

P3 = ("tailLengthInside", "tailLengthOutside", "wallThickness", "ratioPointsWall", "smoothing", "wallCenter")


def make_grid3(with_params=True, a_symbols=True):
    g = SymObj("Grid3Scales", "grid3Scales", label="grid3")
    g.attrs.update(momentumFalloffT=real("momentumFalloffT"), M=integer("M"), N=integer("N"), spacing="Spectral")
    if with_params:
        for n in P3:
            g.attrs[n] = real(n)
        g.attrs["positionFalloff"] = real("wallThickness")
        if a_symbols:
            g.attrs["aIn"], g.attrs["aOut"] = real("aIn"), real("aOut")
    return g


tIn, tOut, L, r, s, zc = (real(n) for n in P3)
# the asserts of _updateParameters = the class invariant of Grid3Scales
G3_INV = [Gt(L, 0), Gt(s, 0), Gt(tIn, L * (sym.R(1, 2) + s) / r), Gt(tOut, L * (sym.R(1, 2) + s) / r), Gt(r, 0), Lt(r, 1),
          Gt(real("momentumFalloffT"), 0)]


def build(chk):
    chk.assume_note("arctanh(u + 0j).real is read as the real function Re artanh(u) with derivative u'/(1-u^2) away from u = +-1")
    c_grid(chk)
    c_grid3_params(chk)
    c_grid3_maps(chk)
    c_cache(chk)
    c_constructors(chk)
    c_callers(chk)


def _maps(chk, module, cls, mk_obj, pre):
    def mk(it):
        for c in pre:
            it.assume(c)
        return mk_obj(), [chi, rz, rp], {}, {}
    (d,) = sel(chk.summarize(module, f"{cls}.decompactify", mk))
    (j,) = sel(chk.summarize(module, f"{cls}.compactificationDerivatives", mk))
    return d, j


def _grid_crosses(chk, cls, module, d, j, sample, attrs_of):
    from wgvc.crosscheck import Cross
    for meth, p in (("decompactify", d), ("compactificationDerivatives", j)):
        def scenario(env, meth=meth):
            return {"module": f"WallGo.{module}", "method": meth, "args": [env["chi"], env["rz"], env["rp"]],
                    "self": {"__stub__": "real", "module": f"WallGo.{module}", "class": cls, "attrs": attrs_of(env)}}
        chk.cross(Cross(f"{cls}.{meth}", [p], sample, scenario, rtol=1e-7))


def grid_crosses(chk, d, j):
    _grid_crosses(chk, "Grid", "grid", d, j,
                  lambda rnd: {"chi": rnd.uniform(-0.95, 0.95), "rz": rnd.uniform(-0.95, 0.95), "rp": rnd.uniform(-1, 0.95),
                               "positionFalloff": rnd.uniform(0.1, 10), "momentumFalloffT": rnd.uniform(0.1, 10)},
                  lambda env: {"positionFalloff": env["positionFalloff"], "momentumFalloffT": env["momentumFalloffT"]})


def grid3_crosses(chk, d, j):
    def sample3(rnd):
        L_, r_, s_ = rnd.uniform(0.1, 5), rnd.uniform(0.2, 0.8), rnd.uniform(0.05, 0.4)
        tmin = L_ * (0.5 + s_) / r_
        return {"chi": rnd.uniform(-0.9, 0.9), "rz": rnd.uniform(-0.9, 0.9), "rp": rnd.uniform(-1, 0.9), "wallThickness": L_, "ratioPointsWall": r_,
                "smoothing": s_, "tailLengthInside": tmin * rnd.uniform(1.2, 3), "tailLengthOutside": tmin * rnd.uniform(1.2, 3),
                "wallCenter": rnd.uniform(-1, 1), "momentumFalloffT": rnd.uniform(0.5, 2), "aIn": rnd.uniform(0.05, 0.5), "aOut": rnd.uniform(0.05, 0.5)}
    _grid_crosses(chk, "Grid3Scales", "grid3Scales", d, j, sample3,
                  lambda env: {k: env[k] for k in ("wallThickness", "ratioPointsWall", "smoothing", "tailLengthInside", "tailLengthOutside",
                                                   "wallCenter", "momentumFalloffT", "aIn", "aOut")})


def c_grid(chk):
    fn = "grid.Grid"
    pre = GRID_INV + CUBE
    d, j = _maps(chk, "grid", "Grid", make_grid, pre)
    grid_crosses(chk, d, j)
    for k, (name, var) in enumerate((("z", chi), ("pz", rz), ("pp", rp))):
        chk.vc(f"Grid.jacobian-is-derivative.{name}", d.pc + j.pc, Eq(j.value[k], deriv(d.value[k], var)),
               func=f"{fn}.compactificationDerivatives", kind="lemma")
        chk.vc(f"Grid.jacobian-positive.{name}", j.pc, Gt(j.value[k], 0), func=f"{fn}.compactificationDerivatives")
        chk.canary(f"Grid.jacobian-is-derivative.{name}", d.pc + j.pc, Eq(j.value[k], 2 * deriv(d.value[k], var)),
                   func=f"{fn}.compactificationDerivatives")
    chk.vc("Grid.origin", d.pc, And(Eq(subs(d.value[0], {chi: 0}), 0), Eq(subs(d.value[1], {rz: 0}), 0),
                                    Eq(subs(d.value[2], {rp: -1}), 0)), func=f"{fn}.decompactify")
    # inverse map offered by the same object
    z, pz, pp = real("z"), real("pz"), real("pp")

    def mkc(it):
        for c in GRID_INV + [Ge(pp, 0)]:
            it.assume(c)
        return make_grid(), [z, pz, pp], {}, {}
    (c,) = sel(chk.summarize("grid", "Grid.compactify", mkc))
    zC, pzC, ppC = c.value
    # decompactify(compactify(x)) == x
    back = [subs(d.value[0], {chi: zC}), subs(d.value[1], {rz: pzC}), subs(d.value[2], {rp: ppC})]
    chk.vc("Grid.inverse.position", c.pc, Eq(back[0], z), func=f"{fn}.compactify")
    chk.vc("Grid.inverse.pz", c.pc, Eq(back[1], pz), func=f"{fn}.compactify")
    chk.vc("Grid.inverse.pp", c.pc, Eq(back[2], pp), func=f"{fn}.compactify")
    # compactify(decompactify(chi)) == chi
    fwd = [subs(zC, {z: d.value[0]}), subs(pzC, {pz: d.value[1]}), subs(ppC, {pp: d.value[2]})]
    chk.vc("Grid.inverse.compact-position", d.pc + c.pc, Eq(fwd[0], chi), func=f"{fn}.compactify")
    chk.vc("Grid.inverse.compact-pz", d.pc + c.pc, Eq(fwd[1], rz), func=f"{fn}.compactify")
    chk.vc("Grid.inverse.compact-pp", d.pc + c.pc, Eq(fwd[2], rp), func=f"{fn}.compactify")
    chk.canary("Grid.inverse", c.pc, Eq(back[0], 2 * z), func=f"{fn}.compactify")
    chk.vc("Grid.compact-range", c.pc, And(Gt(zC, -1), Lt(zC, 1)), func=f"{fn}.compactify")
    # the maps are pure: arrays handed to them (e.g. the grid's own cached coordinates, which getCoordinates returns by reference) are
    # not modified
    for meth, names in (("compactify", ("z", "pz", "pp")), ("decompactify", ("chi", "rz", "rp")), ("compactificationDerivatives", ("chi", "rz", "rp"))):
        orig = [as_array([real(f"{n}.a0"), real(f"{n}.a1")]) for n in names]

        def mka(it, orig=orig):
            for c_ in GRID_INV:
                it.assume(c_)
            arrs = [a.copy() for a in orig]
            return make_grid(), arrs, {}, {"arrs": arrs}
        for i, p in enumerate(sel(chk.summarize("grid", f"Grid.{meth}", mka, record=False))):
            same = all(a.shape == b.shape and all(x is y or x == y for x, y in zip(a.reshape(-1), b.reshape(-1))) for a, b in zip(p.state["arrs"], orig))
            chk.vc(f"Grid.{meth}.arguments-not-modified.{i}", p.pc, sym.to_sym(bool(same)), func=f"{fn}.{meth}", kind="frame")


def c_grid3_params(chk):
    """_updateParameters: raises unless the invariant holds, stores its arguments, and aIn/aOut are positive reals
    given by the closed forms."""
    fn = "grid3Scales.Grid3Scales._updateParameters"

    def mk(it):
        it.assume(Gt(real("momentumFalloffT"), 0))
        g = make_grid3(with_params=False)
        return g, [tIn, tOut, L, r, s, zc], {}, {"g": g}
    paths = chk.summarize("grid3Scales", "Grid3Scales._updateParameters", mk)
    rets = sel(paths)
    for i, p in enumerate(rets):
        g = p.state["g"]
        chk.vc(f"_updateParameters.establishes-invariant.{i}", p.pc, And(*G3_INV[:-1]), func=fn)
        chk.vc(f"_updateParameters.stores-arguments.{i}", p.pc,
               And(*[Eq(g.attrs[n], real(n)) for n in P3]), func=fn, kind="frame")
        for nm, t in (("aIn", tIn), ("aOut", tOut)):
            a = g.attrs[nm]
            rad = 4 * s * L * r**2 * (2 * r * t - L * (1 + s))
            den = 2 * r * t - L * (1 + 2 * s)
            chk.vc(f"_updateParameters.{nm}.closed-form.{i}", p.pc, And(Gt(rad, 0), Gt(den, 0), Gt(a, 0), Eq(a * a * den**2, rad)), func=fn)
    for p in sel(paths, "raise"):
        if p.exc.cls != "AssertionError":
            chk.undecided.append(f"_updateParameters raises {p.exc.cls}")
    if len(rets) == 0:
        chk.undecided.append("_updateParameters: no returning path")
    chk.reach("_updateParameters.invariant", G3_INV, func=fn)


def a_facts():
    """aIn, aOut as established by _updateParameters (proved in c_grid3_params)"""
    out = []
    for a, t in ((real("aIn"), tIn), (real("aOut"), tOut)):
        out += [Gt(a, 0), Eq(a * a * (2 * r * t - L * (1 + 2 * s))**2, 4 * s * L * r**2 * (2 * r * t - L * (1 + s)))]
    return out


def c_grid3_maps(chk):
    fn = "grid3Scales.Grid3Scales"
    pre = G3_INV + CUBE + [Gt(real("aIn"), 0), Gt(real("aOut"), 0)]
    d, j = _maps(chk, "grid3Scales", "Grid3Scales", make_grid3, pre)

    grid3_crosses(chk, d, j)
    for k, (name, var) in enumerate((("z", chi), ("pz", rz), ("pp", rp))):
        chk.vc(f"Grid3Scales.jacobian-is-derivative.{name}", d.pc + j.pc, Eq(j.value[k], deriv(d.value[k], var)),
               func=f"{fn}.compactificationDerivatives", kind="lemma")
        if name != "z":     # (for z the facts are checked for consistency by the reach obligation below: the +1 variant is very large)
            chk.canary(f"Grid3Scales.jacobian-is-derivative.{name}", d.pc + j.pc, Eq(j.value[k], deriv(d.value[k], var) + 1),
                       func=f"{fn}.compactificationDerivatives")
        else:
            chk.reach("Grid3Scales.jacobian-is-derivative.z", d.pc + j.pc, func=f"{fn}.compactificationDerivatives")
    for k, name in ((1, "pz"), (2, "pp")):
        chk.vc(f"Grid3Scales.jacobian-positive.{name}", j.pc, Gt(j.value[k], 0), func=f"{fn}.compactificationDerivatives")
    chk.vc("Grid3Scales.origin", d.pc, And(Eq(subs(d.value[0], {chi: 0}), zc), Eq(subs(d.value[1], {rz: 0}), 0),
                                           Eq(subs(d.value[2], {rp: -1}), 0)), func=f"{fn}.decompactify")
    # ---- positivity and centre slope of the position Jacobian, by lemmas
    aIn, aOut = real("aIn"), real("aOut")
    A, B = 2 * tIn - L / r, 2 * tOut - L / r

    def Sq(a, x):
        return sp.sqrt(a**2 + x**2)

    def gin(x):
        return A * (1 - (x + r) / Sq(aIn, x + r)) / 2

    def gout(x):
        return B * (1 + (x - r) / Sq(aOut, x - r)) / 2
    fj = f"{fn}.compactificationDerivatives"
    # S1: structure of the code's Jacobian (two smoothed steps plus a constant, over 1 - chi^2)
    chk.vc("Grid3Scales.jacobian.z.structure", j.pc, Eq(j.value[0] * (1 - chi**2), gin(chi) + gout(chi) + (1 - 2 * s) * L / r),
           func=fj, kind="lemma")
    # S2/S3: each step contributes smoothing * L / r at the centre (this is what aIn / aOut are tuned for)
    fin, fout = a_facts()[:2], a_facts()[2:]
    chk.vc("Grid3Scales.step-inside-at-centre", G3_INV + fin, Eq(gin(0), s * L / r), func=fj, kind="lemma")
    chk.vc("Grid3Scales.step-outside-at-centre", G3_INV + fout, Eq(gout(0), s * L / r), func=fj, kind="lemma")
    chk.canary("Grid3Scales.step-inside-at-centre", G3_INV + fin, Eq(gin(0), 2 * s * L / r), func=fj)
    centre = [Eq(gin(0), s * L / r), Eq(gout(0), s * L / r)]          # proved just above
    struct0 = Eq(subs(j.value[0], {chi: 0}), gin(0) + gout(0) + (1 - 2 * s) * L / r)   # S1 at chi = 0
    chk.vc("Grid3Scales.jacobian.z.structure-at-centre", j.pc, struct0, func=fj, kind="lemma")
    chk.vc("Grid3Scales.slope-at-centre", G3_INV + centre + [struct0], Eq(subs(j.value[0], {chi: 0}), L / r), func=fj)
    chk.canary("Grid3Scales.slope-at-centre", G3_INV + centre + [struct0], Eq(subs(j.value[0], {chi: 0}), 2 * L / r), func=fj)
    # M1: x / sqrt(a^2 + x^2) is increasing in x ; M2: it lies strictly between -1 and 1
    a_, x_, y_ = real("a_"), real("x_"), real("y_")
    m1 = Implies(And(Gt(a_, 0), Le(x_, y_)), Le(x_ / Sq(a_, x_), y_ / Sq(a_, y_)))
    m2 = Implies(Gt(a_, 0), And(Lt(x_ / Sq(a_, x_), 1), Gt(x_ / Sq(a_, x_), -1)))
    chk.vc("lemma.sigmoid-monotone", [], m1, func="lemma", kind="lemma")
    chk.vc("lemma.sigmoid-bounded", [], m2, func="lemma", kind="lemma")
    chk.canary("lemma.sigmoid-monotone", [], Implies(And(Gt(a_, 0), Le(x_, y_)), Le(y_ / Sq(a_, y_), x_ / Sq(a_, x_))), func="lemma")

    def inst(lemma, **kw):
        return subs(lemma, {real(k): v for k, v in kw.items()})
    smooth = [Lt(s, 1)]       # documented precondition of Grid3Scales ("smoothing should be smaller than 1"), not asserted by the code
    chk.assume_note("requires smoothing < 1 for strict monotonicity of the three-scale map: documented in the class docstring, NOT asserted by _updateParameters (for smoothing > 1 the position Jacobian becomes negative near chi = -+1)")
    pos_facts = G3_INV + CUBE[:2] + [Gt(aIn, 0), Gt(aOut, 0)] + smooth + centre + [
        inst(m1, a_=aIn, x_=chi + r, y_=r), inst(m1, a_=aIn, x_=r, y_=chi + r),
        inst(m1, a_=aOut, x_=chi - r, y_=-r), inst(m1, a_=aOut, x_=-r, y_=chi - r),
        inst(m2, a_=aIn, x_=chi + r), inst(m2, a_=aOut, x_=chi - r)]
    f_chi = gin(chi) + gout(chi) + (1 - 2 * s) * L / r
    # abstract step (bilinear): with U = (chi+r)/S_in(chi), U0 its value at the centre, V, V0 likewise for the outside step
    U, U0, V, V0, Aa, Bb = (real(n) for n in ("U", "U0", "V", "V0", "Aa", "Bb"))
    al_facts = [Gt(Aa, 0), Gt(Bb, 0), Gt(L, 0), Gt(r, 0), Gt(s, 0), Lt(s, 1), Gt(U, -1), Lt(U, 1), Gt(V, -1), Lt(V, 1),
                Implies(Le(chi, 0), Le(U, U0)), Implies(Ge(chi, 0), Ge(V, V0)),
                Eq(Aa * (1 - U0) / 2, s * L / r), Eq(Bb * (1 + V0) / 2, s * L / r)]
    al_goal = Ge(Aa * (1 - U) / 2 + Bb * (1 + V) / 2 + (1 - 2 * s) * L / r, (1 - s) * L / r)
    chk.vc("lemma.two-steps-lower-bound", al_facts, al_goal, func="lemma", kind="lemma")
    chk.canary("lemma.two-steps-lower-bound", al_facts, Ge(Aa * (1 - U) / 2 + Bb * (1 + V) / 2 + (1 - 2 * s) * L / r, L / r), func="lemma")
    conc = {U: (chi + r) / Sq(aIn, chi + r), U0: r / Sq(aIn, r), V: (chi - r) / Sq(aOut, chi - r), V0: -r / Sq(aOut, -r), Aa: A, Bb: B}
    instance = Implies(And(*[subs(f, conc) for f in al_facts]), subs(al_goal, conc))
    chk.vc("Grid3Scales.jacobian-positive.z.numerator", pos_facts + [instance, Gt(A, 0), Gt(B, 0)], Ge(f_chi, (1 - s) * L / r), func=fj)
    chk.vc("Grid3Scales.steps-have-positive-height", G3_INV, And(Gt(A, 0), Gt(B, 0)), func=fj, kind="lemma")
    chk.vc("Grid3Scales.jacobian-positive.z", j.pc + smooth + [Eq(j.value[0] * (1 - chi**2), f_chi), Ge(f_chi, (1 - s) * L / r)],
           Gt(j.value[0], 0), func=fj)
    chk.reach("Grid3Scales.jacobian-positive.z", pos_facts, func=fj)
    # inverse map offered by the same object: method resolution gives Grid.compactify
    from wgvc import source
    fi = source.find_method("grid3Scales", "Grid3Scales", "compactify")
    z = real("z")

    def mkc(it):
        for c in pre:
            it.assume(c)
        return make_grid3(), [z, real("pz"), real("pp")], {}, {}
    owner = fi.qualname.split(".")[0]
    (c,) = sel(chk.summarize(fi.module, fi.qualname, mkc))
    chk.notes.append(f"Grid3Scales.compactify resolves to {fi.module}.{fi.qualname}")
    zC = c.value[0]
    fwd = subs(zC, {z: d.value[0]})
    HINT = {"chi": "1/2", "ratioPointsWall": "1/2", "smoothing": "1/10", "wallThickness": 1, "tailLengthInside": 2,
            "tailLengthOutside": 2, "wallCenter": 0, "momentumFalloffT": 1, "rz": 0, "rp": 0}
    chk.vc("Grid3Scales.inverse.compact-position", d.pc + c.pc + a_facts(), Eq(fwd, chi), func=f"{fn}.compactify",
           meta={"hint": HINT})


def c_cache(chk, momentum_only=False):
    """After __init__ / change*FalloffScale the cached arrays equal the maps of the current parameters.
    (momentum_only: just Grid.changeMomentumFalloffScale, the part other properties rely on.)"""
    nodes = [real("c0"), real("c1")]
    rzn = [real("rz0")]
    rpn = [real("rp0"), real("rp1")]

    _pre_cache = {}

    def fresh_cache(g):
        """pre-state: the class invariant holds - the cache is current for the OLD parameters (so an implementation may legitimately
        update it incrementally); computed once per class from the maps themselves"""
        g.attrs.update(chiValues=as_array(nodes), rzValues=as_array(rzn), rpValues=as_array(rpn))
        key = g.cls
        if key not in _pre_cache:
            final = {k: v for k, v in g.attrs.items() if not isinstance(v, (np.ndarray, Stale))}

            def mkp(it):
                o = SymObj(g.cls, g.module, label="pre")
                o.attrs.update(final)
                return o, [as_array(nodes), as_array(rzn), as_array(rpn)], {}, {}
            (d0,) = sel(chk.summarize(g.module, f"{g.cls}.decompactify", mkp, record=False))
            (j0,) = sel(chk.summarize(g.module, f"{g.cls}.compactificationDerivatives", mkp, record=False))
            _pre_cache[key] = (d0.value, j0.value)
        d0v, j0v = _pre_cache[key]
        for n, v in list(zip(("xiValues", "pzValues", "ppValues"), d0v)) + list(zip(("dxidchi", "dpzdrz", "dppdrp"), j0v)):
            g.attrs[n] = as_array(v).copy()
        return g

    def expect(chk_name, g, paths_pc, module, cls, mk_params, fn):
        # recompute the maps on an object with the *final* parameters
        final = {k: v for k, v in g.attrs.items() if not isinstance(v, (np.ndarray, Stale))}

        def mk(it):
            o = SymObj(cls, module, label="fresh")
            o.attrs.update(final)
            return o, [as_array(nodes), as_array(rzn), as_array(rpn)], {}, {}
        (d,) = sel(chk.summarize(module, f"{cls}.decompactify", mk, record=False))
        (j,) = sel(chk.summarize(module, f"{cls}.compactificationDerivatives", mk, record=False))
        pairs = list(zip(("xiValues", "pzValues", "ppValues"), d.value)) + list(zip(("dxidchi", "dpzdrz", "dppdrp"), j.value))
        goals = []
        for name, val in pairs:
            cached = g.attrs[name]
            if isinstance(cached, Stale):
                goals.append(sp.false)
                continue
            for a, b in zip(as_array(cached).reshape(-1), as_array(val).reshape(-1)):
                goals.append(Eq(a, b))
        chk.vc(chk_name, paths_pc, And(*goals), func=fn, kind="inv")

    new = real("newScale")
    for meth, param in (("changeMomentumFalloffScale", "momentumFalloffT"), ("changePositionFalloffScale", "positionFalloff")):
        if momentum_only and meth != "changeMomentumFalloffScale":
            continue

        def mk(it):
            for c in GRID_INV + [Gt(new, 0)]:
                it.assume(c)
            g = fresh_cache(make_grid())
            return g, [new], {}, {"g": g}
        for i, p in enumerate(sel(chk.summarize("grid", f"Grid.{meth}", mk))):
            g = p.state["g"]
            chk.vc(f"Grid.{meth}.sets-parameter.{i}", p.pc, Eq(g.attrs[param], new), func=f"grid.Grid.{meth}", kind="frame")
            expect(f"Grid.{meth}.cache-is-current.{i}", g, p.pc, "grid", "Grid", None, f"grid.Grid.{meth}")
    if momentum_only:
        return
    # Grid3Scales.changePositionFalloffScale(tailIn, tailOut, L, centre)
    n_t = [real(f"new.{n}") for n in ("tailLengthInside", "tailLengthOutside", "wallThickness", "wallCenter")]

    def mk3(it):
        for c in G3_INV:
            it.assume(c)
        g = fresh_cache(make_grid3(a_symbols=True))
        return g, n_t, {}, {"g": g}
    rets = sel(chk.summarize("grid3Scales", "Grid3Scales.changePositionFalloffScale", mk3))
    for i, p in enumerate(rets):
        g = p.state["g"]
        chk.vc(f"Grid3Scales.changePositionFalloffScale.sets-parameters.{i}", p.pc,
               And(Eq(g.attrs["tailLengthInside"], n_t[0]), Eq(g.attrs["tailLengthOutside"], n_t[1]),
                   Eq(g.attrs["wallThickness"], n_t[2]), Eq(g.attrs["wallCenter"], n_t[3]),
                   Eq(g.attrs["ratioPointsWall"], r), Eq(g.attrs["smoothing"], s)),
               func="grid3Scales.Grid3Scales.changePositionFalloffScale", kind="frame")
        expect(f"Grid3Scales.changePositionFalloffScale.cache-is-current.{i}", g, p.pc, "grid3Scales", "Grid3Scales", None,
               "grid3Scales.Grid3Scales.changePositionFalloffScale")
    if not rets:
        chk.undecided.append("Grid3Scales.changePositionFalloffScale: no returning path")
    # known shortcoming recorded as an obligation: positionFalloff (used by the inherited compactify) follows wallThickness
    for i, p in enumerate(rets):
        g = p.state["g"]
        chk.vc(f"Grid3Scales.changePositionFalloffScale.positionFalloff-follows.{i}", p.pc,
               Eq(g.attrs["positionFalloff"], g.attrs["wallThickness"]),
               func="grid3Scales.Grid3Scales.changePositionFalloffScale", kind="inv")


def cache_is_current(chk, name, g, pc, module, cls, fn):
    """the cached coordinate and Jacobian arrays of ``g`` equal the maps of its CURRENT parameters at its own compact nodes"""
    final = {k: v for k, v in g.attrs.items() if not isinstance(v, (np.ndarray, Stale))}
    nodes = [as_array(g.attrs[n]) for n in ("chiValues", "rzValues", "rpValues")]

    def mk(it):
        o = SymObj(cls, module, label="fresh")
        o.attrs.update(final)
        return o, nodes, {}, {}
    (d,) = sel(chk.summarize(module, f"{cls}.decompactify", mk, record=False))
    (j,) = sel(chk.summarize(module, f"{cls}.compactificationDerivatives", mk, record=False))
    goals = []
    for nm, val in list(zip(("xiValues", "pzValues", "ppValues"), d.value)) + list(zip(("dxidchi", "dpzdrz", "dppdrp"), j.value)):
        cached = g.attrs.get(nm)
        if cached is None or isinstance(cached, Stale):
            goals.append(sp.false)
            continue
        a_, b_ = as_array(cached).reshape(-1), as_array(val).reshape(-1)
        if len(a_) != len(b_):
            goals.append(sp.false)
            continue
        goals += [Eq(x, y) for x, y in zip(a_, b_)]
    chk.vc(name, pc, And(*goals), func=fn, kind="inv")


def c_constructors(chk):
    """After construction the object's parameters are the constructor's arguments (in particular the wall centre), the compact nodes are
    the ones of the spacing asked for, and the cache is current.  (M = N = 3; both spacings.)"""
    args3 = {n: real(f"ctor.{n}") for n in ("tailLengthInside", "tailLengthOutside", "wallThickness", "momentumFalloffT", "ratioPointsWall", "smoothing", "wallCenter")}
    pre3 = [Gt(args3["wallThickness"], 0), Gt(args3["smoothing"], 0), Gt(args3["ratioPointsWall"], 0), Lt(args3["ratioPointsWall"], 1),
            Gt(args3["momentumFalloffT"], 0),
            Gt(args3["tailLengthInside"], args3["wallThickness"] * (sym.R(1, 2) + args3["smoothing"]) / args3["ratioPointsWall"]),
            Gt(args3["tailLengthOutside"], args3["wallThickness"] * (sym.R(1, 2) + args3["smoothing"]) / args3["ratioPointsWall"])]
    for spacing in ("Spectral", "Uniform"):
        def mk(it, spacing=spacing):
            for c in pre3:
                it.assume(c)
            g = SymObj("Grid3Scales", "grid3Scales", label="grid3-new")
            return g, [3, 3, args3["tailLengthInside"], args3["tailLengthOutside"], args3["wallThickness"], args3["momentumFalloffT"],
                       args3["ratioPointsWall"], args3["smoothing"], args3["wallCenter"], spacing], {}, {"g": g}
        rets = sel(chk.summarize("grid3Scales", "Grid3Scales.__init__", mk, record=(spacing == "Spectral")))
        if not rets:
            chk.undecided.append(f"Grid3Scales.__init__[{spacing}]: no returning path")
        for i, p in enumerate(rets):
            g = p.state["g"]
            a = g.attrs
            fn = "grid3Scales.Grid3Scales.__init__"
            chk.vc(f"Grid3Scales.__init__.{spacing}.parameters-are-the-arguments.{i}", p.pc,
                   And(*[Eq(a.get(n, sp.nan), args3[n]) for n in args3], Eq(a.get("positionFalloff", sp.nan), args3["wallThickness"]),
                       sym.to_sym(a.get("M") == 3 and a.get("N") == 3 and a.get("spacing") == spacing)), func=fn)
            cache_is_current(chk, f"Grid3Scales.__init__.{spacing}.cache-is-current.{i}", g, p.pc, "grid3Scales", "Grid3Scales", fn)
            chi = as_array(a["chiValues"]).reshape(-1)
            chk.vc(f"Grid3Scales.__init__.{spacing}.nodes.{i}", p.pc,
                   And(sym.to_sym(len(chi) == 2), Eq(chi[0], -chi[1]), Gt(chi[1], 0), Lt(chi[1], 1)) if len(chi) == 2 else sp.false, func=fn)
    pf, mf = real("ctor.positionFalloff"), real("ctor.momentumFalloffT")

    def mkg(it):
        for c in (Gt(pf, 0), Gt(mf, 0)):
            it.assume(c)
        g = SymObj("Grid", "grid", label="grid-new")
        return g, [3, 3, pf, mf], {}, {"g": g}
    for i, p in enumerate(sel(chk.summarize("grid", "Grid.__init__", mkg))):
        g = p.state["g"]
        chk.vc(f"Grid.__init__.parameters-are-the-arguments.{i}", p.pc, And(Eq(g.attrs["positionFalloff"], pf), Eq(g.attrs["momentumFalloffT"], mf)), func="grid.Grid.__init__")
        cache_is_current(chk, f"Grid.__init__.cache-is-current.{i}", g, p.pc, "grid", "Grid", "grid.Grid.__init__")


def c_callers(chk):
    """EOM._updateGrid and WallGoManager.buildGrid call Grid3Scales with arguments satisfying the asserts of _updateParameters
    (so the class invariant G3_INV holds for every grid the solver uses)."""
    # ---- EOM._updateGrid
    fn = "equationOfMotion.EOM._updateGrid"
    widths = [real("width0"), real("width1")]
    offsets = [real("offset0"), real("offset1")]
    vmid = real("velocityMid")
    sm, rr, mfp = real("grid.smoothing"), real("grid.ratioPointsWall"), real("meanFreePathScale")
    for off_eq in (False, True):
        def mk(it, off_eq=off_eq):
            for c in [Gt(w, 0) for w in widths] + [Gt(vmid, -1), Lt(vmid, 1), Gt(sm, 0), Gt(rr, 0), Lt(rr, 1), Gt(mfp, 0)]:
                it.assume(c)
            grid = SymObj("Grid3Scales", "grid3Scales", label="grid", attrs={"smoothing": sm, "ratioPointsWall": rr})
            eom = SymObj("EOM", "equationOfMotion", label="eom", attrs={"grid": grid, "meanFreePathScale": mfp, "includeOffEq": off_eq})
            wp = SymObj("WallParams", "containers", label="wallParams", attrs={"widths": as_array(widths), "offsets": as_array(offsets)})
            return eom, [wp, vmid], {}, {}

        def change(it, so, a, k):
            it.event(kind="contract-call", name="changePositionFalloffScale", args=list(a))
        paths = sel(chk.summarize("equationOfMotion", "EOM._updateGrid", mk, registry={"Grid3Scales.changePositionFalloffScale": change}))
        if not paths:
            chk.undecided.append("_updateGrid: no returning path")
        for i, p in enumerate(paths):
            calls = [e for e in p.events if e.get("name") == "changePositionFalloffScale"]
            if len(calls) != 1:
                chk.undecided.append("_updateGrid: expected one changePositionFalloffScale call")
                continue
            tI, tO, Lg, zcg = calls[0]["args"]
            tag = f"{'offeq' if off_eq else 'eq'}.{i}"
            chk.vc(f"_updateGrid.establishes-grid-invariant.{tag}", p.pc,
                   And(Gt(Lg, 0), Gt(tI, Lg * (sym.R(1, 2) + sm) / rr), Gt(tO, Lg * (sym.R(1, 2) + sm) / rr)), func=fn)
            # thickness and centre come from the envelope of all walls: every wall (centre -offset*width, half-width width) is inside
            env_lo = zcg + Lg * sp.log(2) / 2 - Lg
            env_hi = zcg + Lg * sp.log(2) / 2 + Lg
            chk.vc(f"_updateGrid.envelope-covers-every-wall.{tag}", p.pc,
                   And(*[And(Le(env_lo, (-1 - o) * w), Ge(env_hi, (1 - o) * w)) for w, o in zip(widths, offsets)]), func=fn)
    chk.canary("_updateGrid.establishes-grid-invariant", [Gt(w, 0) for w in widths], sp.false, func=fn)
    # ---- WallGoManager.buildGrid
    fn2 = "manager.WallGoManager.buildGrid"
    w0, mf, T0, N_, M_ = real("wallThicknessIni"), real("meanFreePathScale"), real("Tnucl"), integer("gridN"), integer("gridM")

    def g3new(it, cref, a, k):
        it.event(kind="contract-call", name="Grid3Scales", args=list(a), kwargs=dict(k))
        return SymObj("Grid3Scales", "grid3Scales", label=it.fresh_name("grid3"))

    def mk2(it):
        for c in (Gt(w0, 0), Gt(mf, 0), Gt(T0, 0), Gt(sm, 0), Gt(rr, 0), Lt(rr, 1)):
            it.assume(c)
        cfg = SymObj(None, None, label="config", attrs={"configGrid": SymObj(None, None, label="configGrid", attrs={
            "momentumGridSize": N_, "spatialGridSize": M_, "ratioPointsWall": rr, "smoothing": sm})})
        man = SymObj("WallGoManager", "manager", label="manager", attrs={"config": cfg,
                     "phasesAtTn": SymObj("PhaseInfo", "containers", label="phasesAtTn", attrs={"temperature": T0})})
        return man, [w0, mf, real("momentumScale")], {}, {}
    paths = chk.summarize("manager", "WallGoManager.buildGrid", mk2, registry={"Grid3Scales.__new__": g3new})
    n_ok = 0
    for i, p in enumerate(sel(paths)):
        calls = [e for e in p.events if e.get("name") == "Grid3Scales"]
        if len(calls) != 1:
            chk.undecided.append("buildGrid: expected one Grid3Scales construction")
            continue
        n_ok += 1
        a = calls[0]["args"]
        M2, N2, tI, tO, Lg, mom, r2, s2 = a[:8]
        chk.vc(f"buildGrid.establishes-grid-invariant.{i}", p.pc,
               And(Gt(Lg, 0), Gt(tI, Lg * (sym.R(1, 2) + s2) / r2), Gt(tO, Lg * (sym.R(1, 2) + s2) / r2), Eq(r2, rr), Eq(s2, sm)), func=fn2)
        chk.vc(f"buildGrid.lengths-in-units-of-inverse-Tnucl.{i}", p.pc, And(Eq(Lg * T0, w0), Ge(tI * T0, mf), Eq(tI, tO)), func=fn2)
        chk.vc(f"buildGrid.odd-momentum-grid.{i}", p.pc, Ne(sp.Mod(N_, 2), 0), func=fn2)
    if n_ok == 0:
        chk.undecided.append("buildGrid: no path constructs a grid")
    for p in sel(paths, "raise"):
        if p.exc.cls != "ValueError":
            chk.undecided.append(f"buildGrid raises {p.exc.cls}")
