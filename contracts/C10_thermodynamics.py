"""C10 - equation of state is thermodynamically consistent and smoothly extrapolated.

Functions under contract: the 14 EOS methods of Thermodynamics, setExtrapolate, alpha.
Every postcondition below is taken from the property statement:
  (id)    e = T dp - p,  w = T dp,  de = d e/dT,  csq * de = dp         in all three regions
  (der)   the reported dp is d/dT of the reported p, ddp is d/dT of dp   in all three regions
  (in)    inside the tabulated range  p = -f, dp = -f', ddp = -f''
  (cont)  after setExtrapolate: p, dp, ddp (hence csq) continuous at TMin and TMax of each phase
"""
from __future__ import annotations

import sympy as sp

from wgvc.api import *            # noqa: F401,F403
from wgvc import sym
from wgvc.smt import quick_sat
from .common import (PHASES, ENDS, COEFFS, THERMO_STATE, attr_sym, make_thermo, thermo_spec,
                     free_energy_registry, auto_facts, state_map, FREE_ENERGY_ASSUMPTION)

PROPERTY = "C10"
MODULE = "thermodynamics"
MIN_OBLIGATIONS = 45
T = real("T")


def _region(ph):
    lo, hi = attr_sym(f"TMin{ph}T"), attr_sym(f"TMax{ph}T")
    return {"below": [Lt(T, lo)], "inside": [Ge(T, lo), Le(T, hi)], "above": [Ge(T, lo), Gt(T, hi)]}


def _pre(ph):
    """Preconditions of the EOS methods (reachability-checked): positive temperatures, ordered range."""
    lo, hi = attr_sym(f"TMin{ph}T"), attr_sym(f"TMax{ph}T")
    return [Gt(T, 0), Gt(lo, 0), Lt(lo, hi)]


def summaries(chk, ph):
    """Symbolic summaries of the seven EOS methods of one phase on a generic state."""
    s = thermo_spec(ph)
    reg = free_energy_registry()
    X = f"{ph}T"
    out = {}

    def mk(it):
        th = make_thermo()
        return th, [T], {}, {"th": th}

    # leaf methods: the bodies are interpreted, FreeEnergy is the only callee
    for name in ("p", "dp", "ddp"):
        out[name] = chk.summarize(MODULE, f"Thermodynamics.{name}{X}", mk, registry=reg)
    # composed methods: callees are the reported functions (pure contract calls)
    sib = dict(reg)
    for name in ("p", "dp", "ddp", "e", "de", "w"):
        sib[f"Thermodynamics.{name}{X}"] = pure_call(lambda self_obj, t, _f=s[name]: _f(t))
    for name in ("e", "de", "w", "csq"):
        out[name] = chk.summarize(MODULE, f"Thermodynamics.{name}{X}", mk, registry=sib)
    return out


def build(chk):
    # 'spline derivatives of the free-energy table' (anchors): whenever a table is installed the derivative splines are those of the NEW
    # spline (shared with C18)
    from .C18_interpolation import c_interpolate, c_modes
    c_interpolate(chk)
    c_modes(chk)
    c_eos(chk)


def c_eos(chk):
    chk.assume_note(FREE_ENERGY_ASSUMPTION)
    chk.assume_note("pow(b, e) with symbolic exponent: only b**(e+k) = b**e * b**k (k integer literal) and b>0 => b**e>0 are used")
    all_sums = {}
    for ph in PHASES:
        s = thermo_spec(ph)
        X = f"{ph}T"
        S = summaries(chk, ph)
        all_sums[ph] = S
        regions = _region(ph)
        pre = _pre(ph)
        fn = f"thermodynamics.Thermodynamics"

        # ---- (in) and (der) on the three leaf methods
        inside_val = {"p": -s["f"](T), "dp": -s["df"](T), "ddp": -s["ddf"](T)}
        for name in ("p", "dp", "ddp"):
            paths = sel(S[name])
            if len(paths) != len(S[name]):
                chk.undecided.append(f"{name}{X}: a path raises")
            n_in = 0
            for i, p in enumerate(paths):
                facts = pre + regions["inside"] + p.pc
                if quick_sat(facts) == "unsat":
                    continue
                n_in += 1
                chk.vc(f"{name}{X}.inside.path{i}", facts, Eq(p.value, inside_val[name]), func=f"{fn}.{name}{X}")
                chk.canary(f"{name}{X}.inside.path{i}", facts, Eq(p.value, -inside_val[name] + 1), func=f"{fn}.{name}{X}")
            if n_in == 0:
                chk.undecided.append(f"{name}{X}: no path reaches the inside region")
            for rname, rc in regions.items():
                chk.reach(f"{name}{X}.{rname}", pre + rc + [Or(*[And(*p.pc) for p in paths])], func=f"{fn}.{name}{X}")
        for lower, upper in (("p", "dp"), ("dp", "ddp")):
            for rname, rc in regions.items():
                k = 0
                for i, p in enumerate(sel(S[lower])):
                    for j, q in enumerate(sel(S[upper])):
                        facts = pre + rc + p.pc + q.pc
                        if quick_sat(facts) == "unsat":
                            continue
                        k += 1
                        chk.vc(f"{upper}{X}.is-derivative-of.{lower}{X}.{rname}.{i}.{j}", facts,
                               Eq(deriv(p.value, T), q.value), func=f"{fn}.{upper}{X}", kind="lemma")
                        if rname != "inside":
                            chk.canary(f"{upper}{X}.is-derivative-of.{lower}{X}.{rname}.{i}.{j}", facts,
                                       Eq(deriv(p.value, T) * T, q.value), func=f"{fn}.{upper}{X}")
                if k == 0:
                    chk.undecided.append(f"{upper}{X}/{lower}{X}: no compatible path pair in region {rname}")

        # ---- (id) thermodynamic identities, callee = reported functions
        (pe,), (pde,), (pw,) = sel(S["e"]), sel(S["de"]), sel(S["w"])
        chk.vc(f"e{X}.identity", pre + pe.pc, Eq(pe.value, T * s["dp"](T) - s["p"](T)), func=f"{fn}.e{X}")
        chk.vc(f"w{X}.identity", pre + pw.pc, Eq(pw.value, T * s["dp"](T)), func=f"{fn}.w{X}")
        chk.vc(f"w{X}.is-e-plus-p", pre + pw.pc + pe.pc, Eq(pw.value, pe.value + s["p"](T)), func=f"{fn}.w{X}")
        # de is the temperature derivative of e (p' = dp and dp' = ddp are the lemmas proved above)
        chk.vc(f"de{X}.is-derivative-of.e{X}", pre + pde.pc + pe.pc, Eq(pde.value, deriv(pe.value, T)), func=f"{fn}.de{X}", kind="lemma")
        chk.canary(f"de{X}.is-derivative-of.e{X}", pre + pde.pc + pe.pc, Eq(pde.value, deriv(pe.value, T) + 1), func=f"{fn}.de{X}")

        # ---- csq * de = dp in every region, under the class invariant established by setExtrapolate
        inv = invariant(S, ph)
        names = THERMO_STATE
        gen = make_thermo()
        dp_facts = auto_facts(sel(S["dp"]), [T], names)
        ddp_facts = auto_facts(sel(S["ddp"]), [T], names)
        lo, hi = attr_sym(f"TMin{ph}T"), attr_sym(f"TMax{ph}T")

        def reported(t):
            """facts linking the reported dp, de at temperature t to the summaries of their bodies"""
            fs = dp_facts(gen, [t], s["dp"](t)) + ddp_facts(gen, [t], s["ddp"](t))
            fs.append(Eq(s["de"](t), t * s["ddp"](t)))     # proved: de identity above
            return fs
        for i, p in enumerate(sel(S["csq"])):
            for rname, rc in regions.items():
                facts = pre + rc + p.pc
                if quick_sat(facts) == "unsat":
                    continue
                facts = facts + inv + reported(T) + reported(lo) + reported(hi) + \
                    [Ne(s["ddp"](T), 0), Ne(s["ddp"](lo), 0), Ne(s["ddp"](hi), 0), Ne(s["dp"](lo), 0), Ne(s["dp"](hi), 0)]
                chk.vc(f"csq{X}.times-de-is-dp.{rname}.path{i}", facts, Eq(p.value * s["de"](T), s["dp"](T)),
                       func=f"{fn}.csq{X}")
                chk.canary(f"csq{X}.times-de-is-dp.{rname}.path{i}", facts, Eq(p.value * s["de"](T), 2 * s["dp"](T)),
                           func=f"{fn}.csq{X}")
                chk.reach(f"csq{X}.{rname}.path{i}", facts, func=f"{fn}.csq{X}")

    # ---- setExtrapolate establishes the invariant (continuity at the four range ends)
    set_extrapolate(chk, all_sums)
    alpha(chk)
    crosschecks(chk, all_sums)


def crosschecks(chk, all_sums):
    """translation validation of the interpreter on the six leaf EOS methods (real code under CPython vs the summaries)"""
    from wgvc.crosscheck import Cross, poly_chain, to_native_poly, to_callable
    for ph in PHASES:
        for name in ("p", "dp", "ddp"):
            def functions(rnd, ph=ph):
                xs, fam = poly_chain(rnd, [f"f{ph}", f"df{ph}", f"ddf{ph}"], nvars=1, deg=4)
                return ({k: to_native_poly(xs, v) for k, v in fam.items()}, {k: to_callable(xs, v) for k, v in fam.items()})

            def sample(rnd, ph=ph):
                lo = rnd.uniform(0.5, 1.0)
                hi = lo + rnd.uniform(0.2, 1.0)
                env = {"T": rnd.uniform(0.2, 2.5), f"self.TMin{ph}T": lo, f"self.TMax{ph}T": hi}
                for e in ENDS:
                    env[f"self.mu{e}{ph}T"] = rnd.uniform(3.0, 5.0)
                    env[f"self.a{e}{ph}T"] = rnd.uniform(0.5, 2.0)
                    env[f"self.epsilon{e}{ph}T"] = rnd.uniform(-1.0, 1.0)
                return env

            def scenario(env, ph=ph, name=name):
                attrs = {k.split(".", 1)[1]: v for k, v in env.items() if k.startswith("self.")}
                attrs[f"freeEnergy{ph}"] = {"__stub__": "freeenergy", "f": f"f{ph}", "df": f"df{ph}", "ddf": f"ddf{ph}"}
                return {"module": "WallGo.thermodynamics", "method": f"{name}{ph}T", "args": [env["T"]],
                        "self": {"__stub__": "real", "module": "WallGo.thermodynamics", "class": "Thermodynamics", "attrs": attrs}}
            chk.cross(Cross(f"Thermodynamics.{name}{ph}T", all_sums[ph][name], sample, scenario, functions=functions))


def invariant(S, ph):
    """Continuity of p, dp, ddp at both ends of the tabulated range, phrased on the summaries:
    the value of the outside branch at the end equals the inside value there."""
    s = thermo_spec(ph)
    out = []
    inside_val = {"p": lambda t: -s["f"](t), "dp": lambda t: -s["df"](t), "ddp": lambda t: -s["ddf"](t)}
    for end, rname in (("Min", "below"), ("Max", "above")):
        E = attr_sym(f"T{end}{ph}T")
        rc = _region(ph)[rname]
        for name in ("p", "dp", "ddp"):
            for p in sel(S[name]):
                if quick_sat(_pre(ph) + rc + p.pc) == "unsat":
                    continue
                out.append(Eq(subs(p.value, {T: E}), inside_val[name](E)))
    return out


def set_extrapolate(chk, all_sums):
    reg = free_energy_registry()
    names = THERMO_STATE
    # callee contracts = strongest postconditions of the methods summarised above, instantiated at the
    # state the object has at the moment of the call
    for ph in PHASES:
        s = thermo_spec(ph)
        S = all_sums[ph]
        X = f"{ph}T"
        for name in ("p", "dp", "ddp"):
            reg[f"Thermodynamics.{name}{X}"] = pure_call(lambda so, t, _f=s[name]: _f(t),
                                                         auto_facts(sel(S[name]), [T], names))
        dpf = auto_facts(sel(S["dp"]), [T], names)
        ddpf = auto_facts(sel(S["ddp"]), [T], names)
        # w = T dp and de = T ddp are the identities proved above; the facts about dp / ddp come along
        reg[f"Thermodynamics.w{X}"] = pure_call(
            lambda so, t, _s=s: _s["w"](t),
            lambda so, a, r, _s=s, _f=dpf: [Eq(r, a[0] * _s["dp"](a[0]))] + _f(so, a, _s["dp"](a[0])))
        reg[f"Thermodynamics.de{X}"] = pure_call(
            lambda so, t, _s=s: _s["de"](t),
            lambda so, a, r, _s=s, _f=ddpf: [Eq(r, a[0] * _s["ddp"](a[0]))] + _f(so, a, _s["ddp"](a[0])))
        # csq: inline the real body (it only calls dp and de)
    pre = []
    for ph in PHASES:
        lo, hi = real(f"self.TMin{ph}T_traced"), real(f"self.TMax{ph}T_traced")
        pre += [Gt(lo, 0), Lt(lo, hi)]

    def mk(it):
        th = make_thermo(traced_suffix="_traced")
        for c in pre:
            it.assume(c)
        return th, [], {}, {"th": th}

    paths = chk.summarize(MODULE, "Thermodynamics.setExtrapolate", mk, registry=reg)
    rets = sel(paths)
    if len(rets) != len(paths) or not rets:
        chk.undecided.append("setExtrapolate: a path raises or none returns")
    for k, p in enumerate(rets):
        th = p.state["th"]
        post = state_map(th, names)
        chk.reach(f"setExtrapolate.path{k}", p.pc, func="thermodynamics.Thermodynamics.setExtrapolate")
        for ph in PHASES:
            s = thermo_spec(ph)
            inside_val = {"p": s["f"], "dp": s["df"], "ddp": s["ddf"]}
            for end, rname in (("Min", "below"), ("Max", "above")):
                E = attr_sym(f"T{end}{ph}T")
                rc = _region(ph)[rname]
                for name in ("p", "dp", "ddp"):
                    for i, q in enumerate(sel(all_sums[ph][name])):
                        if quick_sat(_pre(ph) + rc + q.pc) == "unsat":
                            continue
                        outside_at_E = subs(subs(q.value, {T: E}), post)
                        Epost = subs(E, post)
                        goal = Eq(outside_at_E, -inside_val[name](Epost))
                        nm = f"setExtrapolate.continuity.{name}{ph}T.T{end}.path{k}.{i}"
                        chk.vc(nm, p.pc, goal, func="thermodynamics.Thermodynamics.setExtrapolate", kind="inv")
                        chk.canary(nm, p.pc, Eq(outside_at_E, -inside_val[name](Epost) + 1),
                                   func="thermodynamics.Thermodynamics.setExtrapolate")
            # the range ends are the traced ones
            for end in ENDS:
                chk.vc(f"setExtrapolate.range.T{end}{ph}T.path{k}", p.pc,
                       Eq(th.attrs[f"T{end}{ph}T"], real(f"self.T{end}{ph}T_traced")),
                       func="thermodynamics.Thermodynamics.setExtrapolate", kind="inv")


def alpha(chk):
    reg = {}
    sp_ = {ph: thermo_spec(ph) for ph in PHASES}
    for ph in PHASES:
        for name in ("p", "e", "w", "csq"):
            reg[f"Thermodynamics.{name}{ph}T"] = pure_call(lambda so, t, _f=sp_[ph][name]: _f(t))

    def mk(it):
        th = make_thermo()
        return th, [T], {}, {"th": th}
    (p,) = sel(chk.summarize(MODULE, "Thermodynamics.alpha", mk, registry=reg))
    H, L = sp_["High"], sp_["Low"]
    chk.vc("alpha.definition", p.pc,
           Eq(p.value * 3 * H["w"](T), H["e"](T) - L["e"](T) - (H["p"](T) - L["p"](T)) / L["csq"](T)),
           func="thermodynamics.Thermodynamics.alpha")
    chk.canary("alpha.definition", p.pc,
               Eq(p.value * 3 * H["w"](T), H["e"](T) - L["e"](T) - (H["p"](T) - L["p"](T)) * L["csq"](T)),
               func="thermodynamics.Thermodynamics.alpha")
