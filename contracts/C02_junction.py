"""C02 - energy and momentum flux are conserved across the wall.

Postconditions (from the statement): the returned (v+, v-, T+, T-) carry equal energy flux
w g^2 v and equal momentum flux w g^2 v^2 + p on both sides, evaluated with the model's own
EOS; c1, c2 equal those fluxes (c1 with the documented minus sign); velocityMid = -(v+ + v-)/2.
"""
from __future__ import annotations

import sympy as sp

from wgvc.api import *            # noqa: F401,F403
from wgvc import sym, stubs
from wgvc.smt import quick_sat
from .common import (thermo_spec, eos_registry, make_hydro, gammaSq, EOS_ASSUMPTION)

PROPERTY = "C02"
MODULE = "hydrodynamics"
MIN_OBLIGATIONS = 12
H, L = thermo_spec("High"), thermo_spec("Low")
HY = "hydrodynamics.Hydrodynamics"

vpvmF = specfun("vpvmF")
vpovmF = specfun("vpovmF")
invMapT = specfun("invMapT")


def flux30(w, v):
    return w * gammaSq(v) * v


def flux33(w, p, v):
    return w * gammaSq(v) * v * v + p


def junction_goals(vp, vm, Tp, Tm):
    wH, wL = H["e"](Tp) + H["p"](Tp), L["e"](Tm) + L["p"](Tm)
    return {"energy": Eq(flux30(wH, vp), flux30(wL, vm)),
            "momentum": Eq(flux33(wH, H["p"](Tp), vp), flux33(wL, L["p"](Tm), vm))}


def vpvm_facts(Tp, Tm, r0, r1):
    """ensures of vpvmAndvpovm (proved below), instantiated at a call site"""
    pH, pL, eH, eL = H["p"](Tp), L["p"](Tm), H["e"](Tp), L["e"](Tm)
    return [Implies(Ne(eH, eL), Eq(r0 * (eH - eL), pH - pL)), Eq(r1 * (eH + pL), eL + pH)]


def hydro_registry():
    reg = eos_registry()

    def vpvm(it, so, args, kwargs):
        Tp, Tm = args
        r0, r1 = vpvmF(Tp, Tm), vpovmF(Tp, Tm)
        for f in vpvm_facts(Tp, Tm, r0, r1):
            it.assume(f)
        # the callees' facts (w = e + p at both temperatures) come with the call
        it.assume(Eq(H["w"](Tp), H["e"](Tp) + H["p"](Tp)))
        it.assume(Eq(L["w"](Tm), L["e"](Tm) + L["p"](Tm)))
        return (r0, r1)
    reg["Hydrodynamics.vpvmAndvpovm"] = vpvm

    def inverse_mapping(it, so, args, kwargs):
        # contract of _inverseMappingT (proved in c_mapping): a pure map of each component into (TMinHydro, TMaxHydro)
        out = []
        for x in it.iterate(args[0]):
            t = invMapT(x)
            it.assume(And(Gt(t, so.attrs["TMinHydro"]), Lt(t, so.attrs["TMaxHydro"])))
            out.append(t)
        return out
    reg["Hydrodynamics._inverseMappingT"] = inverse_mapping
    return reg


def c_mapping(chk):
    """_inverseMappingT maps every real into the open interval (TMinHydro, TMaxHydro), componentwise and
    by the same function, and undoes _mappingT there."""
    a, b = real("x0"), real("x1")
    fn = f"{HY}._inverseMappingT"
    pre = [Gt(real("TMaxHydro"), real("TMinHydro"))]

    def mk(it):
        hy = make_hydro()
        return hy, [[a, b]], {}, {"hy": hy}
    (p,) = sel(chk.summarize(MODULE, "Hydrodynamics._inverseMappingT", mk, registry={}))
    Tp, Tm = p.value
    for nm, t, x in (("Tp", Tp, a), ("Tm", Tm, b)):
        chk.vc(f"_inverseMappingT.range.{nm}", pre + p.pc, And(Gt(t, real("TMinHydro")), Lt(t, real("TMaxHydro"))), func=fn)
    chk.vc("_inverseMappingT.same-map", pre + p.pc, Eq(Tm, subs(Tp, {a: b})), func=fn)
    chk.canary("_inverseMappingT.range", pre + p.pc, Gt(Tp, real("TMaxHydro")), func=fn)

    def mk2(it):
        hy = make_hydro()
        return hy, [[Tp, Tm]], {}, {"hy": hy}
    (q,) = sel(chk.summarize(MODULE, "Hydrodynamics._mappingT", mk2, registry={}))
    chk.vc("_mappingT.inverse", pre + q.pc, And(Eq(q.value[0], a), Eq(q.value[1], b)), func=f"{HY}._mappingT")


def physical(vp, vm, Tp, Tm):
    """requires: subluminal positive velocities, positive enthalpies, distinct energy densities"""
    pH, pL, eH, eL = H["p"](Tp), L["p"](Tm), H["e"](Tp), L["e"](Tm)
    return [Gt(vp, 0), Lt(vp, 1), Gt(vm, 0), Lt(vm, 1), Gt(eH + pH, 0), Gt(eL + pL, 0), Ne(eH, eL), Ne(eH + pL, 0)]


def build(chk):
    chk.assume_note(EOS_ASSUMPTION)
    lemma_junction(chk)
    c_vpvm(chk)
    c_mapping(chk)
    c_matchDeton(chk)
    c_matchDeflagOrHyb(chk)
    c_findHydroBoundaries(chk)
    c_findMatching(chk)
    # the template model's matching / boundaries (observe_at of this property): obligations shared with C15
    from . import C15_template as T15
    T15.c_findTm(chk)
    T15.c_getVp(chk)
    T15.c_wFromAlpha(chk)
    T15.c_boundaries(chk)
    T15.c_template_matching(chk)


# --------------------------------------------------------------------------- lemma
def lemma_junction(chk):
    vp, vm, Tp, Tm = real("vp"), real("vm"), real("Tp"), real("Tm")
    pH, pL, eH, eL = H["p"](Tp), L["p"](Tm), H["e"](Tp), L["e"](Tm)
    facts = physical(vp, vm, Tp, Tm) + [Eq(vp * vm * (eH - eL), pH - pL), Eq(vp * (eH + pL), vm * (eL + pH))]
    for k, g in junction_goals(vp, vm, Tp, Tm).items():
        chk.vc(f"lemma.junction.{k}", facts, g, func="lemma", kind="lemma")
    chk.canary("lemma.junction", facts, Eq(flux30(eH + pH, vp), 2 * flux30(eL + pL, vm)), func="lemma")
    chk.reach("lemma.junction", facts, func="lemma")


# --------------------------------------------------------------------------- vpvmAndvpovm
def c_vpvm(chk):
    Tp, Tm = real("Tp"), real("Tm")

    def mk(it):
        hy = make_hydro()
        return hy, [Tp, Tm], {}, {"hy": hy}
    paths = chk.summarize(MODULE, "Hydrodynamics.vpvmAndvpovm", mk, registry=eos_registry())
    fn = f"{HY}.vpvmAndvpovm"
    pH, pL, eH, eL = H["p"](Tp), L["p"](Tm), H["e"](Tp), L["e"](Tm)
    for i, p in enumerate(sel(paths)):
        r0, r1 = p.value
        chk.vc(f"vpvmAndvpovm.post.vpvm.path{i}", p.pc, Implies(Ne(eH, eL), Eq(r0 * (eH - eL), pH - pL)), func=fn)
        chk.vc(f"vpvmAndvpovm.post.vpovm.path{i}", p.pc, Eq(r1 * (eH + pL), eL + pH), func=fn)
        chk.canary(f"vpvmAndvpovm.post.vpovm.path{i}", p.pc, Eq(r1 * (eH + pL), eH + pL), func=fn)
    chk.reach("vpvmAndvpovm.generic", [Ne(eH, eL)] + sel(paths)[0].pc, func=fn)
    from wgvc.crosscheck import Cross, poly_chain, to_native_poly, to_callable

    def functions(rnd):
        nat, symf = {}, {}
        for nm in ("pHigh", "pLow", "eHigh", "eLow"):
            xs, fam = poly_chain(rnd, [nm], nvars=1, deg=3)
            nat[nm], symf[nm] = to_native_poly(xs, fam[nm]), to_callable(xs, fam[nm])
        for ph in ("High", "Low"):
            symf[f"w{ph}"] = (lambda t, _p=symf[f"p{ph}"], _e=symf[f"e{ph}"]: _p(t) + _e(t))
        return nat, symf

    def scenario(env):
        th = {"__stub__": "object", "methods": {"pHighT": "pHigh", "pLowT": "pLow", "eHighT": "eHigh", "eLowT": "eLow"}}
        return {"module": "WallGo.hydrodynamics", "method": "vpvmAndvpovm", "args": [env["Tp"], env["Tm"]],
                "self": {"__stub__": "real", "module": "WallGo.hydrodynamics", "class": "Hydrodynamics", "attrs": {"thermodynamics": th}}}
    chk.cross(Cross("Hydrodynamics.vpvmAndvpovm", paths, lambda rnd: {"Tp": rnd.uniform(0.5, 2), "Tm": rnd.uniform(0.5, 2)}, scenario, functions=functions))
    if len(sel(paths)) != len(paths):
        chk.undecided.append("vpvmAndvpovm: a path raises")


# --------------------------------------------------------------------------- matchDeton
def c_matchDeton(chk):
    vw = real("vw")
    pre = [Gt(vw, 0), Lt(vw, 1)]

    def mk(it):
        hy = make_hydro()
        for c in pre:
            it.assume(c)
        return hy, [vw], {}, {"hy": hy}
    paths = chk.summarize(MODULE, "Hydrodynamics.matchDeton", mk, registry=hydro_registry(), externals=stubs.EXTERNALS)
    fn = f"{HY}.matchDeton"
    Tn = real("Tnucl")
    rets = sel(paths)
    if not rets:
        chk.undecided.append("matchDeton: no returning path")
    for i, p in enumerate(rets):
        vp, vm, Tp, Tm = p.value
        if not isinstance(vm, sp.Basic):
            # the luminal special case vp == 1 -> vm = 1 is outside the precondition 0 < vw < 1
            if quick_sat(p.pc) != "unsat":
                chk.undecided.append(f"matchDeton: path {i} returns the luminal special case although vw < 1")
            continue
        chk.vc(f"matchDeton.post.front-undisturbed.path{i}", p.pc, And(Eq(vp, vw), Eq(Tp, Tn)), func=fn)
        facts = p.pc + physical(vp, vm, Tp, Tm) + [Gt(vpvmF(Tp, Tm), 0), Gt(vpovmF(Tp, Tm), 0)]
        for k, g in junction_goals(vp, vm, Tp, Tm).items():
            chk.vc(f"matchDeton.post.junction.{k}.path{i}", facts, g, func=fn)
        chk.canary(f"matchDeton.post.junction.path{i}", facts,
                   Eq(flux30(H["e"](Tp) + H["p"](Tp), vp), 2 * flux30(L["e"](Tm) + L["p"](Tm), vm)), func=fn)
        chk.reach(f"matchDeton.path{i}", facts, func=fn)
    # every raise is a WallGoError or the ValueError of an unbracketed root
    for i, p in enumerate(sel(paths, "raise")):
        if p.exc.cls not in ("WallGoError", "ValueError"):
            chk.undecided.append(f"matchDeton raises {p.exc.cls}")
    # the residual handed to brentq is the one whose zero means v+^2 = (v+v-)(v+/v-)
    for i, p in enumerate(rets):
        if not isinstance(p.value[1], sp.Basic):
            continue
        evs = [e for e in p.events if e.get("kind") == "root_scalar"]
        if len(evs) != 1:
            chk.undecided.append("matchDeton: expected exactly one root_scalar call")
            continue
        e = evs[0]
        Tm = e["generic_x"]
        pH, pL, eH, eL = H["p"](Tn), L["p"](Tm), H["e"](Tn), L["e"](Tm)
        chk.vc(f"matchDeton.brentq.residual.path{i}", p.pc + [Ne(eH + pL, 0)],
               Eq(e["generic_f"] * (eH + pL), vw**2 * (eH - eL) * (eH + pL) - (pH - pL) * (eL + pH)), func=fn)
        chk.vc(f"matchDeton.brentq.tolerances.path{i}", p.pc,
               And(Eq(e["xtol"], real("atol")), Eq(e["rtol"], real("rtol")), Eq(e["a"], Tn)), func=fn)


# --------------------------------------------------------------------------- matchDeflagOrHyb
def _mdh_blocks():
    """Block contract for the initial-guess section of matchDeflagOrHyb (from the ``try`` that asks the
    template model up to the call of scipy.optimize.root): its frame is {Tpm0, vwTemplate, vpTemplate};
    afterwards Tpm0 is a list of two reals.  Nothing else is promised - it is only a starting point."""
    import ast

    def start(st):
        return isinstance(st, ast.Try)

    def end(st):
        return isinstance(st, ast.Assign) and isinstance(st.value, ast.Call) and ast.unparse(st.value.func) == "root"

    def apply(it, env):
        env.vars["Tpm0"] = [it.fresh_real("Tp0"), it.fresh_real("Tm0")]
    callees = {"self.template.matchDeflagOrHybInitial", "min", "np.sqrt", "np.any", "np.isnan",
               "self.thermodynamics.csqLowT"}
    return {"Hydrodynamics.matchDeflagOrHyb": [BlockSpec("matchDeflagOrHyb.initial-guess", start, end,
                                                         {"Tpm0", "vwTemplate", "vpTemplate"}, apply, may_call=callees)]}


def c_matchDeflagOrHyb(chk):
    vw, vpin = real("vw"), real("vpIn")
    Tn = real("Tnucl")
    pre = [Gt(vw, 0), Lt(vw, 1), Gt(Tn, 0), Gt(real("TMaxHydro"), real("TMinHydro")), Gt(real("TMinHydro"), 0)]
    fn = f"{HY}.matchDeflagOrHyb"
    chk.assume_note("block contract matchDeflagOrHyb.initial-guess: the statements from the template try-block to the call of root() only assign "
                    "Tpm0/vwTemplate/vpTemplate (frame checked on the AST every run) and call only pure functions; Tpm0 is havocked to two reals")
    for mode in ("vp-given", "entropy"):
        def mk(it, mode=mode):
            hy = make_hydro()
            for c in pre:
                it.assume(c)
            if mode == "vp-given":
                it.assume(Gt(vpin, 0))
                it.assume(Lt(vpin, 1))
                return hy, [vw, vpin], {}, {"hy": hy}
            return hy, [vw], {}, {"hy": hy}
        paths = chk.summarize(MODULE, "Hydrodynamics.matchDeflagOrHyb", mk, registry=hydro_registry(),
                              externals=stubs.EXTERNALS, block_specs=_mdh_blocks())
        rets = sel(paths)
        if not rets:
            chk.undecided.append(f"matchDeflagOrHyb[{mode}]: no returning path")
        n_conv = n_not = 0
        seen = {}
        for p in rets:
            vp, vm, Tp, Tm = p.value
            ev = [e for e in p.events if e.get("kind") == "root"]
            if len(ev) != 1:
                chk.undecided.append(f"matchDeflagOrHyb[{mode}]: expected one hybr call per path")
                continue
            ok = ev[0]["success"]
            converged = ok in p.pc
            not_conv = sp.Not(ok) in p.pc
            if not (converged or not_conv):
                chk.undecided.append(f"matchDeflagOrHyb[{mode}]: hybr success flag not decided on a path")
                continue
            tag = "hybr-converged" if converged else "hybr-not-converged"
            k = seen.get(tag, 0)
            seen[tag] = k + 1
            facts = p.pc + physical(vp, vm, Tp, Tm) + [Gt(vpvmF(Tp, Tm), 0), Gt(vpovmF(Tp, Tm), 0), Gt(Tp, 0), Gt(Tm, 0)]
            if quick_sat(facts) == "unsat":
                continue
            for kk, g in junction_goals(vp, vm, Tp, Tm).items():
                chk.vc(f"matchDeflagOrHyb.{mode}.post.junction.{kk}.{tag}.{k}", facts, g, func=fn)
            if converged:
                n_conv += 1
                chk.canary(f"matchDeflagOrHyb.{mode}.post.junction.{tag}.{k}", facts,
                           Eq(flux30(H["e"](Tp) + H["p"](Tp), vp), 2 * flux30(L["e"](Tm) + L["p"](Tm), vm)), func=fn)
                chk.reach(f"matchDeflagOrHyb.{mode}.{tag}.{k}", facts, func=fn)
            else:
                n_not += 1
        if n_conv == 0:
            chk.undecided.append(f"matchDeflagOrHyb[{mode}]: no converged returning path")
        for p in sel(paths, "raise"):
            if p.exc.cls not in ("WallGoError",):
                chk.undecided.append(f"matchDeflagOrHyb[{mode}] raises {p.exc.cls}")


# --------------------------------------------------------------------------- findHydroBoundaries
def c_findHydroBoundaries(chk):
    vw = real("vw")
    fn = f"{HY}.findHydroBoundaries"
    m = {k: real(f"match.{k}") for k in ("vp", "vm", "Tp", "Tm")}

    def matching(it, so, args, kwargs):
        # contract of findMatching on its returning paths (proved for matchDeton / matchDeflagOrHyb above):
        # the junction conditions hold for the returned state
        it.event(kind="contract-call", name="findMatching", args=list(args))
        for g in junction_goals(m["vp"], m["vm"], m["Tp"], m["Tm"]).values():
            it.assume(g)
        return (m["vp"], m["vm"], m["Tp"], m["Tm"])
    reg = eos_registry()
    reg["Hydrodynamics.findMatching"] = matching

    def mk(it):
        hy = make_hydro()
        return hy, [vw], {}, {"hy": hy}
    paths = chk.summarize(MODULE, "Hydrodynamics.findHydroBoundaries", mk, registry=reg)
    k = 0
    for p in sel(paths):
        if len(p.value) != 5:
            chk.undecided.append("findHydroBoundaries: unexpected return arity")
            continue
        calls = [e for e in p.events if e.get("kind") == "contract-call" and e.get("name") == "findMatching"]
        if not calls:
            # the documented early return for vw < vMin
            chk.vc(f"findHydroBoundaries.early-return.{k}", p.pc, Lt(vw, real("vMin")), func=fn)
            k += 1
            continue
        c1, c2, Tp, Tm, vmid = p.value
        vp, vm = m["vp"], m["vm"]
        facts = p.pc + physical(vp, vm, m["Tp"], m["Tm"])
        wH, wL = H["e"](Tp) + H["p"](Tp), L["e"](Tm) + L["p"](Tm)
        chk.vc(f"findHydroBoundaries.args.{k}", p.pc, Eq(calls[0]["args"][0], vw), func=fn)
        chk.vc(f"findHydroBoundaries.temperatures.{k}", facts, And(Eq(Tp, m["Tp"]), Eq(Tm, m["Tm"])), func=fn)
        chk.vc(f"findHydroBoundaries.c1.front.{k}", facts, Eq(c1, -flux30(wH, vp)), func=fn)
        chk.vc(f"findHydroBoundaries.c1.behind.{k}", facts, Eq(c1, -flux30(wL, vm)), func=fn)
        chk.vc(f"findHydroBoundaries.c2.front.{k}", facts, Eq(c2, flux33(wH, H["p"](Tp), vp)), func=fn)
        chk.vc(f"findHydroBoundaries.c2.behind.{k}", facts, Eq(c2, flux33(wL, L["p"](Tm), vm)), func=fn)
        chk.vc(f"findHydroBoundaries.velocityMid.{k}", facts, Eq(vmid, -(vp + vm) / 2), func=fn)
        chk.canary(f"findHydroBoundaries.c1.{k}", facts, Eq(c1, flux30(wH, vp)), func=fn)
        chk.reach(f"findHydroBoundaries.{k}", facts, func=fn)
        k += 1
    if k < 2:
        chk.undecided.append("findHydroBoundaries: expected an early-return path and a matching path")


# --------------------------------------------------------------------------- findMatching
def c_findMatching(chk):
    """Dispatch: detonation iff vw > vJ; the template fallback is taken only when no sign change of the
    shock mismatch was found and the bounded extremum is positive; every other returning path returns
    what matchDeton / matchDeflagOrHyb returned (whose junction postconditions are proved above)."""
    vw = real("vw")
    fn = f"{HY}.findMatching"
    Tsh = specfun("TshockF")
    reg = eos_registry()
    counter = {"n": 0}

    def deton(it, so, args, kwargs):
        it.event(kind="contract-call", name="matchDeton", args=list(args))
        return tuple(it.fresh_real(f"det.{k}") for k in ("vp", "vm", "Tp", "Tm"))

    def deflag(it, so, args, kwargs):
        vwa = args[0]
        vpa = args[1] if len(args) > 1 else kwargs.get("vp")
        r = tuple(specfun(f"mdh_{k}")(vwa, vpa) for k in ("vp", "vm", "Tp", "Tm"))
        it.event(kind="contract-call", name="matchDeflagOrHyb", args=[vwa, vpa], result=r)
        return r

    def shock(it, so, args, kwargs):
        return Tsh(*args)

    def tmatch(it, so, args, kwargs):
        it.event(kind="contract-call", name="template.findMatching", args=list(args))
        return tuple(it.fresh_real(f"tpl.{k}") for k in ("vp", "vm", "Tp", "Tm"))
    reg.update({"Hydrodynamics.matchDeton": deton, "Hydrodynamics.matchDeflagOrHyb": deflag,
                "Hydrodynamics.solveHydroShock": shock, "HydrodynamicsTemplateModel.findMatching": tmatch})

    def mk(it):
        hy = make_hydro()
        it.assume(Gt(vw, 0))
        it.assume(Lt(vw, 1))
        return hy, [vw], {}, {"hy": hy}
    paths = chk.summarize(MODULE, "Hydrodynamics.findMatching", mk, registry=reg, externals=stubs.EXTERNALS)
    vJ = real("vJ")
    n = {"det": 0, "tpl": 0, "mdh": 0}
    for i, p in enumerate(sel(paths)):
        names = [e.get("name") for e in p.events if e.get("kind") == "contract-call"]
        if "matchDeton" in names:
            n["det"] += 1
            chk.vc(f"findMatching.detonation-iff-above-vJ.{i}", p.pc, Gt(vw, vJ), func=fn)
            det = [e for e in p.events if e.get("name") == "matchDeton"][0]
            chk.vc(f"findMatching.detonation-args.{i}", p.pc, Eq(det["args"][0], vw), func=fn)
            chk.vc(f"findMatching.detonation-result.{i}", p.pc,
                   And(*[Eq(a, real(f"det.{k}")) for a, k in zip(p.value, ("vp", "vm", "Tp", "Tm"))]), func=fn)
            continue
        chk.vc(f"findMatching.deflagration-iff-not-above-vJ.{i}", p.pc, Le(vw, vJ), func=fn)
        if "template.findMatching" in names:
            n["tpl"] += 1
            # guard of the approximate fallback: no sign change at the ends and positive extremum
            mins = [e for e in p.events if e.get("kind") == "minimize_scalar"]
            if len(mins) != 1:
                chk.undecided.append("findMatching: fallback path without the bounded minimisation")
                continue
            chk.vc(f"findMatching.fallback-guard.{i}", p.pc, Gt(mins[0]["fun"], 0), func=fn)
            rs = [e for e in p.events if e.get("kind") == "root_scalar" and e.get("site", "").endswith("findMatching")]
            continue
        n["mdh"] += 1
        last = [e for e in p.events if e.get("name") == "matchDeflagOrHyb"][-1]
        roots = [e for e in p.events if e.get("kind") == "root_scalar" and "root" in e]
        if not roots:
            chk.undecided.append("findMatching: deflagration path without a root find")
            continue
        r = roots[-1]
        # the returned matching is matchDeflagOrHyb at the root of (shock temperature - Tn)
        chk.vc(f"findMatching.result-is-matching-at-root.{i}", p.pc,
               And(Eq(last["args"][0], vw), Eq(last["args"][1], r["root"]),
                   *[Eq(a, b) for a, b in zip(p.value, last["result"])]), func=fn)
        Tp_r = specfun("mdh_Tp")(vw, r["root"])
        chk.vc(f"findMatching.root-reaches-Tn.{i}", p.pc + [r["converged"]],
               Eq(Tsh(vw, r["root"], Tp_r), real("Tnucl")), func=fn)
        chk.vc(f"findMatching.tolerances.{i}", p.pc, And(Eq(r["xtol"], real("atol")), Eq(r["rtol"], real("rtol"))), func=fn)
    if min(n.values()) == 0:
        chk.undecided.append(f"findMatching: path classes missing {n}")
    # the closure that re-evaluates the upper end of the v+ bracket: the shock front sits at the wall when
    # v+ vw = cs^2 of the phase IN FRONT of the wall at T+ (an exact matching is only missed if this is wrong)
    vpT = real("vpTry")

    def env(it):
        hy = make_hydro()
        return {"self": hy, "vwTry": vw}, {"hy": hy}
    for k, q in enumerate(sel(chk.summarize_closure(MODULE, "Hydrodynamics.findMatching", "solveVpmax", env,
                                                    lambda it, cap: ([vpT], {}), registry=reg))):
        Tp_ = specfun("mdh_Tp")(vw, vpT)
        chk.vc(f"findMatching.solveVpmax.front-at-wall-condition.{k}", q.pc + [Gt(vw, 0)],
               Eq(q.value, vpT - H["csq"](Tp_) / vw), func=fn + ".<solveVpmax>")
        chk.canary(f"findMatching.solveVpmax.{k}", q.pc + [Gt(vw, 0)], Eq(q.value, vpT + H["csq"](Tp_) / vw), func=fn + ".<solveVpmax>")
    chk.canary("findMatching.dispatch", sel(paths)[0].pc, Le(vw, vJ) if n["det"] and "matchDeton" in
               [e.get("name") for e in sel(paths)[0].events] else Gt(vw, vJ), func=fn)
