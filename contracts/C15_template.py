"""C15 - the full hydrodynamics and the template model agree on template equations of state.

Both solvers are proved against ONE specification: the junction conditions (equal energy and momentum flux, C02) together with an
equation of state.  C02/C03/C06 prove it for the general solver with an arbitrary EOS; here the closed forms of the template class are
proved against the same conditions specialised to the template EOS
    w_+(T) = w_N (T/Tn)^mu,  p_+(T) = p_N + (w_+(T) - w_N)/mu,   w_-(T) = psi_N w_N (T/Tn)^nu,   cb^2 = 1/(nu-1), cs^2 = 1/(mu-1):
  * __init__: alN, psiN, cb2, cs2, mu, nu, wN, pN equal their definitions from the thermodynamics at Tn;
  * getVp solves the wall junction relation 3 al (1-vp^2) vm cb^2 = (vm-vp)(cb^2 - vp vm) ... in the form used by the class, and the
    alpha(vp, vm) of _shooting / findMatching / matchDeflagOrHybInitial is its inverse;
  * wFromAlpha(al) ((1-3 al) mu - nu) = (1-3 alN) mu - nu;
  * _findTm: T- is such that the ENERGY FLUX w gamma^2 v is the same on both sides with the template enthalpies;
  * findHydroBoundaries: c1 = -w_+ g^2 v+, c2 = p_+ + w_+ g^2 v+^2 with the template EOS; velocityMid;
  * detonationVAndT / findJouguetVelocity: see C06.
Not decided: numerical agreement to tolerance of two root finders; uniqueness of the physical root.
"""
from __future__ import annotations

import sympy as sp

from wgvc.api import *            # noqa: F401,F403
from wgvc import sym
from .common import thermo_spec, eos_registry, gammaSq
from .C06_admissible import make_template

PROPERTY = "C15"
MODULE = "hydrodynamicsTemplateModel"
MIN_OBLIGATIONS = 12
TQ = "hydrodynamicsTemplateModel.HydrodynamicsTemplateModel"
Tn, mu_, nu_, psi, wN, pN, alN, cb = (real(n) for n in ("Tnucl", "mu", "nu", "psiN", "wN", "pN", "alN", "cb"))
POS = [Gt(Tn, 0), Gt(mu_, 1), Gt(nu_, 1), Gt(psi, 0), Gt(wN, 0), Gt(cb, 0), Lt(cb, 1)]


def wH(T):
    return wN * (T / Tn)**mu_


def wL(T):
    return psi * wN * (T / Tn)**nu_


def build(chk):
    chk.assume_note("for symbolic exponents only b**(x+y)=b**x b**y, b**(-x)=1/b**x, (b**x)**y=b**(xy), b>0 => b**x>0 are used")
    c_findTm(chk)
    c_getVp(chk)
    c_wFromAlpha(chk)
    c_boundaries(chk)
    c_init(chk)
    c_findvwLTE(chk)


def c_findTm(chk):
    fn = f"{TQ}._findTm"
    vm, vp, Tp = real("vm"), real("vp"), real("Tp")
    pre = POS + [Gt(vm, 0), Lt(vm, 1), Gt(vp, 0), Lt(vp, 1), Gt(Tp, 0)]

    def mk(it):
        for c in pre:
            it.assume(c)
        return make_template(), [vm, vp, Tp], {}, {}
    paths = sel(chk.summarize(MODULE, "HydrodynamicsTemplateModel._findTm", mk))
    if not paths:
        chk.undecided.append("_findTm: no returning path")
    from wgvc.crosscheck import Cross

    def sample(rnd):
        return {"vm": rnd.uniform(0.05, 0.9), "vp": rnd.uniform(0.05, 0.9), "Tp": rnd.uniform(0.5, 50), "Tnucl": rnd.uniform(0.5, 50),
                "mu": rnd.uniform(3.5, 4.5), "nu": rnd.uniform(3.5, 4.5), "psiN": rnd.uniform(0.5, 1.0), "wN": 1.0, "cb": 0.5, "alN": 0.1,
                "cs2": 0.3, "cs": 0.55, "pN": 1.0}

    def scenario(env):
        attrs = {k: env[k] for k in ("mu", "nu", "psiN", "Tnucl")}
        return {"module": "WallGo.hydrodynamicsTemplateModel", "method": "_findTm", "args": [env["vm"], env["vp"], env["Tp"]],
                "self": {"__stub__": "real", "module": "WallGo.hydrodynamicsTemplateModel", "class": "HydrodynamicsTemplateModel", "attrs": attrs}}
    chk.cross(Cross("HydrodynamicsTemplateModel._findTm", paths, sample, scenario))
    for i, p in enumerate(paths):
        Tm = p.value
        chk.vc(f"_findTm.energy-flux-equal.{i}", p.pc, Eq(wH(Tp) * gammaSq(vp) * vp, wL(Tm) * gammaSq(vm) * vm), func=fn)
        chk.canary(f"_findTm.energy-flux-equal.{i}", p.pc, Eq(wH(Tp) * gammaSq(vp) * vp, 2 * wL(Tm) * gammaSq(vm) * vm), func=fn)
        chk.reach(f"_findTm.{i}", p.pc, func=fn)


def wall_relation(vp, vm, al):
    """junction conditions of the template EOS solved for alpha_+ (eq. 20a of arXiv:2303.10171)"""
    return Eq(3 * al * (1 - vp**2) * vm * cb**2, (vp - vm) * (vp * vm - cb**2))


def c_getVp(chk):
    fn = f"{TQ}.getVp"
    vm, al = real("vm"), real("al")
    pre = POS + [Gt(vm, 0), Lt(vm, 1), Gt(al, 0)]
    for branch in (-1, 1):
        def mk(it, branch=branch):
            for c in pre:
                it.assume(c)
            return make_template(), [vm, al, branch], {}, {}
        for i, p in enumerate(sel(chk.summarize(MODULE, "HydrodynamicsTemplateModel.getVp", mk))):
            vp = p.value
            disc = vm**4 - 2 * cb**2 * vm**2 * (1 - 6 * al) + cb**4 * (1 - 12 * vm**2 * al * (1 - 3 * al))
            chk.vc(f"getVp.branch{branch}.solves-wall-relation.{i}", p.pc + [Ge(disc, 0)], wall_relation(vp, vm, al), func=fn)
            chk.canary(f"getVp.branch{branch}.{i}", p.pc + [Ge(disc, 0)], wall_relation(vp, vm, -al), func=fn)
    # alpha(vp, vm) as used by _shooting / findMatching / matchDeflagOrHybInitial is the inverse relation
    vw, vp = real("vw"), real("vp")
    # _shooting: only the alpha expression is needed - run up to wFromAlpha through a contract that records its argument
    rec = {}

    def wfa(it, so, a, k):
        it.event(kind="contract-call", name="wFromAlpha", args=list(a))
        return real("wp")

    def integ(it, so, a, k):
        from wgvc.builtins_model import as_array
        return SymObj(None, None, label="sol", attrs={"y": as_array([[it.fresh_real("xiEnd")], [it.fresh_real("wEnd")]]), "t": as_array([it.fresh_real("vEnd")])})

    def mk2(it):
        for c in POS + [Gt(vw, 0), Lt(vw, 1), Gt(vp, 0), Lt(vp, 1)]:
            it.assume(c)
        return make_template(), [vw, vp], {}, {}
    paths = chk.summarize(MODULE, "HydrodynamicsTemplateModel._shooting", mk2,
                          registry={"HydrodynamicsTemplateModel.wFromAlpha": wfa, "HydrodynamicsTemplateModel.integratePlasma": integ})
    n = 0
    for i, p in enumerate(paths):
        calls = [e for e in p.events if e.get("name") == "wFromAlpha"]
        if not calls:
            continue
        n += 1
        al_used = calls[0]["args"][0]
        vm_used = sp.Piecewise((vw, Lt(vw, cb)), (cb, True))
        chk.vc(f"_shooting.alpha-is-inverse-of-getVp.{i}", p.pc + [Ne(vp, 1)],
               And(Implies(Lt(vw, cb), wall_relation(vp, vw, al_used)), Implies(Ge(vw, cb), wall_relation(vp, cb, al_used))),
               func=f"{TQ}._shooting")
    if n == 0:
        chk.undecided.append("_shooting: alpha expression not reached")


def c_wFromAlpha(chk):
    fn = f"{TQ}.wFromAlpha"
    al = real("al")

    def mk(it):
        for c in POS:
            it.assume(c)
        return make_template(), [al], {}, {}
    for i, p in enumerate(sel(chk.summarize(MODULE, "HydrodynamicsTemplateModel.wFromAlpha", mk))):
        w = p.value
        A, B = (1 - 3 * alN) * mu_ - nu_, (1 - 3 * al) * mu_ - nu_
        chk.vc(f"wFromAlpha.template-eos.{i}", p.pc + [Ne(A, 0), Ne(B, 0)], Eq(w * B, A), func=fn)
        chk.canary(f"wFromAlpha.template-eos.{i}", p.pc + [Ne(A, 0), Ne(B, 0)], Eq(w * B, -A), func=fn)


def c_boundaries(chk):
    fn = f"{TQ}.findHydroBoundaries"
    vw = real("vw")
    m = {k: real(f"match.{k}") for k in ("vp", "vm", "Tp", "Tm")}

    def matching(it, so, a, k):
        return (m["vp"], m["vm"], m["Tp"], m["Tm"])

    def mk(it):
        for c in POS + [Gt(m["vp"], 0), Lt(m["vp"], 1), Gt(m["Tp"], 0)]:
            it.assume(c)
        return make_template(), [vw], {}, {}
    n = 0
    for i, p in enumerate(sel(chk.summarize(MODULE, "HydrodynamicsTemplateModel.findHydroBoundaries", mk,
                                            registry={"HydrodynamicsTemplateModel.findMatching": matching}))):
        if len(p.value) != 5 or not isinstance(p.value[0], sp.Basic) or p.value[0] == 0:
            continue
        n += 1
        c1, c2, Tp, Tm, vmid = p.value
        w = wH(m["Tp"])
        pH = pN + (w - wN) / mu_
        chk.vc(f"findHydroBoundaries.template.c1.{i}", p.pc, Eq(c1, -w * gammaSq(m["vp"]) * m["vp"]), func=fn)
        chk.vc(f"findHydroBoundaries.template.c2.{i}", p.pc, Eq(c2, pH + w * gammaSq(m["vp"]) * m["vp"]**2), func=fn)
        chk.vc(f"findHydroBoundaries.template.rest.{i}", p.pc, And(Eq(Tp, m["Tp"]), Eq(Tm, m["Tm"]), Eq(vmid, -(m["vp"] + m["vm"]) / 2)), func=fn)
        chk.canary(f"findHydroBoundaries.template.{i}", p.pc, Eq(c1, w * gammaSq(m["vp"]) * m["vp"]), func=fn)
    if n == 0:
        chk.undecided.append("template findHydroBoundaries: no path with a matching")


def c_findvwLTE(chk):
    """HydrodynamicsTemplateModel.findvwLTE.  With the definitions of alN and psiN proved in __init__ (for ANY equation of state)
         3 alN wN = (e+ - e-) - (p+ - p-)/cb^2,   psiN wN = w-,   (nu - 1) cb^2 = 1,   e = w - p       at Tn,
    the first guard  alN < (1 - psiN)/3  is  p+(Tn) > p-(Tn): the symmetric phase has the larger pressure, nothing drives the wall; and with
    the template's broken phase (p- = w-/nu) the second guard  alN <= (mu - nu)/(3 mu)  is  w+(Tn)/mu <= p+(Tn): non-positive vacuum
    energy of the symmetric phase.  Obligations: the static sentinel 0 is returned exactly in these two situations, the runaway sentinel
    exactly when alN exceeds maxAl(100) or the shooting residual at vJ is negative, and otherwise the result is the root of the shooting
    residual  _shooting(vw, getVp(min(cb, vw), solveAlpha(vw)))  bracketed by [1e-3, vJ] with the object's tolerances."""
    fn = f"{TQ}.findvwLTE"
    ALPHA, GETVP, SHOOT = specfun("solveAlpha"), specfun("getVp"), specfun("shooting")
    maxal = real("maxAl100")
    reg = {"HydrodynamicsTemplateModel.maxAl": lambda it, so, a, k: (it.event(kind="contract-call", name="maxAl", args=list(a) + [k.get("upperLimit")]), maxal)[1],
           "HydrodynamicsTemplateModel.solveAlpha": lambda it, so, a, k: ALPHA(a[0]),
           "HydrodynamicsTemplateModel.getVp": lambda it, so, a, k: GETVP(a[0], a[1]),
           "HydrodynamicsTemplateModel._shooting": lambda it, so, a, k: SHOOT(a[0], a[1])}
    from wgvc import stubs
    vJt = real("vJt")

    def resid(vw):
        vm = sp.Piecewise((cb, Lt(cb, vw)), (vw, True))
        return SHOOT(vw, GETVP(vm, ALPHA(vw)))
    # the EOS quantities at Tn behind alN and psiN
    pP, pM, wM = real("pPlusN"), real("pMinusN"), real("wMinusN")
    eos = POS + [Eq(psi * wN, wM), Eq((nu_ - 1) * cb**2, 1),
                 Eq(3 * alN * wN, (wN - pP) - (wM - pM) - (pP - pM) / cb**2)]
    tmpl_low = [Eq(pM * nu_, wM)]

    def mk(it):
        for c in POS + [Gt(vJt, sym.R(1, 1000)), Lt(vJt, 1)]:
            it.assume(c)
        return make_template(), [], {}, {}
    paths = chk.summarize(MODULE, "HydrodynamicsTemplateModel.findvwLTE", mk, registry=reg, externals=stubs.EXTERNALS)
    rets = sel(paths)
    g1 = Gt(pP, pM)                       # no driving pressure
    g2 = Le(wN / mu_, pP)                 # vacuum energy of the symmetric phase <= 0
    kinds = {"zero": 0, "one": 0, "root": 0}
    for i, p in enumerate(rets):
        v = p.value
        rs = [e for e in p.events if e.get("kind") == "root_scalar" and e.get("site", "").endswith("findvwLTE")]
        if isinstance(v, (int, float)) or (isinstance(v, sp.Basic) and v.is_number):
            if v == 0:
                kinds["zero"] += 1
                chk.vc(f"template.findvwLTE.static-sentinel-reason.{i}", p.pc + eos + tmpl_low, Or(g1, g2), func=fn)
                chk.canary(f"template.findvwLTE.static-sentinel-reason.{i}", p.pc + eos + tmpl_low, And(g1, g2), func=fn)
                chk.reach(f"template.findvwLTE.static.{i}", p.pc + eos + tmpl_low, func=fn)
                continue
            if v == 1:
                kinds["one"] += 1
                chk.vc(f"template.findvwLTE.runaway-sentinel-reason.{i}", p.pc + eos + tmpl_low,
                       And(Not(g1), Not(g2), Or(Gt(alN, maxal), Lt(resid(vJt), 0))), func=fn)
                calls = [e for e in p.events if e.get("name") == "maxAl"]
                chk.vc(f"template.findvwLTE.maxAl-upper-limit.{i}", p.pc, sym.to_sym(bool(calls) and all(100 in [x for x in e["args"] if isinstance(x, int)] for e in calls)), func=fn)
                continue
        kinds["root"] += 1
        if len(rs) != 1 or "root" not in rs[0]:
            chk.undecided.append("template findvwLTE: returning path without its root find")
            continue
        e = rs[0]
        chk.vc(f"template.findvwLTE.not-a-sentinel-case.{i}", p.pc + eos + tmpl_low, And(Not(g1), Not(g2), Le(alN, maxal), Ge(resid(vJt), 0)), func=fn)
        chk.vc(f"template.findvwLTE.result-is-bracketed-root.{i}", p.pc, And(Eq(v, e["root"]), Eq(e["a"], sym.R(1, 1000)), Eq(e["b"], vJt),
                                                                            Eq(e["xtol"], real("atol")), Eq(e["rtol"], real("rtol"))), func=fn)
        chk.vc(f"template.findvwLTE.root-function-is-shooting-residual.{i}", p.pc, Eq(e["generic_f"], resid(e["generic_x"])), func=fn)
        chk.vc(f"template.findvwLTE.root-solves-residual.{i}", p.pc + [e["converged"]], Eq(resid(v), 0), func=fn)
        chk.canary(f"template.findvwLTE.root-solves-residual.{i}", p.pc + [e["converged"]], Eq(resid(v), 1), func=fn)
        chk.reach(f"template.findvwLTE.root.{i}", p.pc + eos + tmpl_low, func=fn)
    if min(kinds.values()) == 0:
        chk.undecided.append(f"template findvwLTE: path classes missing {kinds}")
    for p in sel(paths, "raise"):
        if p.exc.cls != "ValueError":
            chk.undecided.append(f"template findvwLTE raises {p.exc.cls}")


def c_init(chk):
    fn = f"{TQ}.__init__"
    H, L = thermo_spec("High"), thermo_spec("Low")
    T0 = real("Tnucl")

    def mk(it):
        th = SymObj("Thermodynamics", "thermodynamics", label="thermodynamics", attrs={"Tnucl": T0})
        t = SymObj("HydrodynamicsTemplateModel", MODULE, label="template")
        it.assume(Gt(H["w"](T0), 0))
        return t, [th], {}, {"t": t}
    reg = eos_registry()
    reg["HydrodynamicsTemplateModel.findJouguetVelocity"] = lambda it, so, a, k: real("vJt")
    reg["HydrodynamicsTemplateModel.minVelocity"] = lambda it, so, a, k: real("vMint")
    paths = chk.summarize(MODULE, "HydrodynamicsTemplateModel.__init__", mk, registry=reg)
    rets = sel(paths)
    if not rets:
        chk.undecided.append("template __init__: no returning path")
    for i, p in enumerate(rets):
        a = p.state["t"].attrs
        eH, eL = H["w"](T0) - H["p"](T0), L["w"](T0) - L["p"](T0)
        facts = p.pc + [Gt(L["csq"](T0), 0), Gt(H["csq"](T0), 0)]
        chk.vc(f"template.__init__.definitions.{i}", facts,
               And(Eq(a["cb2"], L["csq"](T0)), Eq(a["cs2"], H["csq"](T0)), Eq(a["psiN"] * H["w"](T0), L["w"](T0)),
                   Eq(a["alN"] * 3 * H["w"](T0), eH - eL - (H["p"](T0) - L["p"](T0)) / L["csq"](T0)),
                   Eq(a["wN"], H["w"](T0)), Eq(a["pN"], H["p"](T0)), Eq((a["nu"] - 1) * L["csq"](T0), 1), Eq((a["mu"] - 1) * H["csq"](T0), 1),
                   Eq(a["cb"]**2, a["cb2"]), Eq(a["cs"]**2, a["cs2"])), func=fn)
        chk.canary(f"template.__init__.{i}", facts, Eq(a["psiN"] * L["w"](T0), H["w"](T0)), func=fn)
