"""C15 - the full hydrodynamics and the template model agree on template equations of state.

Both solvers are proved against ONE specification: the junction conditions (equal energy and momentum flux, C02) together with an
equation of state.  C02/C03/C06 prove it for the general solver with an arbitrary EOS; here the closed forms of the template class are
proved against the same conditions specialised to the template EOS
    w_+(T) = w_N (T/Tn)^mu,  p_+(T) = p_N + (w_+(T) - w_N)/mu,   w_-(T) = psi_N w_N (T/Tn)^nu,   cb^2 = 1/(nu-1), cs^2 = 1/(mu-1):
  * __init__: alN, psiN, cb2, cs2, mu, nu, wN, pN equal their definitions from the thermodynamics at Tn;
  * getVp solves the wall junction relation 3 al (1-vp^2) vm cb^2 = (vm-vp)(cb^2 - vp vm) ... in the form used by the class, and the
    alpha(vp, vm) of _shooting / findMatching / matchDeflagOrHybInitial is its inverse;
  * wFromAlpha(al) ((1-3 al) mu - nu) = (1-3 alN) mu - nu;
  * _findTm: T- is such that the ENERGY FLUX w gamma^2 v is the same on both sides with the template enthalpies;
  * findHydroBoundaries: c1 = -w_+ g^2 v+, c2 = p_+ + w_+ g^2 v+^2 with the template EOS; velocityMid;
  * detonationVAndT / findJouguetVelocity: see C06.
Not decided: numerical agreement to tolerance of two root finders; uniqueness of the physical root.
"""
from __future__ import annotations

import sympy as sp

from wgvc.api import *            # noqa: F401,F403
from wgvc import sym
from .common import thermo_spec, eos_registry, gammaSq, template_cross, template_sample
from .C06_admissible import make_template

PROPERTY = "C15"
MODULE = "hydrodynamicsTemplateModel"
MIN_OBLIGATIONS = 12
TQ = "hydrodynamicsTemplateModel.HydrodynamicsTemplateModel"
Tn, mu_, nu_, psi, wN, pN, alN, cb = (real(n) for n in ("Tnucl", "mu", "nu", "psiN", "wN", "pN", "alN", "cb"))
POS = [Gt(Tn, 0), Gt(mu_, 1), Gt(nu_, 1), Gt(psi, 0), Gt(wN, 0), Gt(cb, 0), Lt(cb, 1)]


def wH(T):
    return wN * (T / Tn)**mu_


def wL(T):
    return psi * wN * (T / Tn)**nu_


def build(chk):
    chk.assume_note("for symbolic exponents only b**(x+y)=b**x b**y, b**(-x)=1/b**x, (b**x)**y=b**(xy), b>0 => b**x>0 are used")
    c_findTm(chk)
    c_getVp(chk)
    c_wFromAlpha(chk)
    c_boundaries(chk)
    c_init(chk)
    c_findvwLTE(chk)
    c_template_matching(chk)
    c_eqWall(chk)
    c_maxAl(chk)
    from .common import template_frame
    template_frame(chk)
    from . import C03_shock as S03
    S03.c_efficiency(chk)
    S03.c_template_efficiency(chk)
    S03.c_template_integrate(chk)
    S03.c_template(chk)
    # 'same minimal velocity': the general solver's minVelocity / strongestShock (shared with C06)
    from .C06_admissible import c_min_velocity
    c_min_velocity(chk)


def c_findTm(chk):
    fn = f"{TQ}._findTm"
    vm, vp, Tp = real("vm"), real("vp"), real("Tp")
    pre = POS + [Gt(vm, 0), Lt(vm, 1), Gt(vp, 0), Lt(vp, 1), Gt(Tp, 0)]

    def mk(it):
        for c in pre:
            it.assume(c)
        return make_template(), [vm, vp, Tp], {}, {}
    paths = sel(chk.summarize(MODULE, "HydrodynamicsTemplateModel._findTm", mk))
    if not paths:
        chk.undecided.append("_findTm: no returning path")
    from wgvc.crosscheck import Cross

    def sample(rnd):
        return {"vm": rnd.uniform(0.05, 0.9), "vp": rnd.uniform(0.05, 0.9), "Tp": rnd.uniform(0.5, 50), "Tnucl": rnd.uniform(0.5, 50),
                "mu": rnd.uniform(3.5, 4.5), "nu": rnd.uniform(3.5, 4.5), "psiN": rnd.uniform(0.5, 1.0), "wN": 1.0, "cb": 0.5, "alN": 0.1,
                "cs2": 0.3, "cs": 0.55, "pN": 1.0}

    def scenario(env):
        attrs = {k: env[k] for k in ("mu", "nu", "psiN", "Tnucl")}
        return {"module": "WallGo.hydrodynamicsTemplateModel", "method": "_findTm", "args": [env["vm"], env["vp"], env["Tp"]],
                "self": {"__stub__": "real", "module": "WallGo.hydrodynamicsTemplateModel", "class": "HydrodynamicsTemplateModel", "attrs": attrs}}
    chk.cross(Cross("HydrodynamicsTemplateModel._findTm", paths, sample, scenario))
    for i, p in enumerate(paths):
        Tm = p.value
        chk.vc(f"_findTm.energy-flux-equal.{i}", p.pc, Eq(wH(Tp) * gammaSq(vp) * vp, wL(Tm) * gammaSq(vm) * vm), func=fn)
        chk.canary(f"_findTm.energy-flux-equal.{i}", p.pc, Eq(wH(Tp) * gammaSq(vp) * vp, 2 * wL(Tm) * gammaSq(vm) * vm), func=fn)
        chk.reach(f"_findTm.{i}", p.pc, func=fn)


def wall_relation(vp, vm, al):
    """junction conditions of the template EOS solved for alpha_+ (eq. 20a of arXiv:2303.10171)"""
    return Eq(3 * al * (1 - vp**2) * vm * cb**2, (vp - vm) * (vp * vm - cb**2))


def c_getVp(chk):
    fn = f"{TQ}.getVp"
    vm, al = real("vm"), real("al")
    pre = POS + [Gt(vm, 0), Lt(vm, 1), Gt(al, 0)]
    for branch in (-1, 1):
        def mk(it, branch=branch):
            for c in pre:
                it.assume(c)
            return make_template(), [vm, al, branch], {}, {}
        gv_paths = sel(chk.summarize(MODULE, "HydrodynamicsTemplateModel.getVp", mk))
        if branch == -1:
            template_cross(chk, "getVp", gv_paths, ["vm", "al", -1], lambda rnd, env: {"vm": rnd.uniform(0.3, 0.55), "al": rnd.uniform(0.005, 0.05)})
        for i, p in enumerate(gv_paths):
            vp = p.value
            disc = vm**4 - 2 * cb**2 * vm**2 * (1 - 6 * al) + cb**4 * (1 - 12 * vm**2 * al * (1 - 3 * al))
            chk.vc(f"getVp.branch{branch}.solves-wall-relation.{i}", p.pc + [Ge(disc, 0)], wall_relation(vp, vm, al), func=fn)
            chk.canary(f"getVp.branch{branch}.{i}", p.pc + [Ge(disc, 0)], wall_relation(vp, vm, -al), func=fn)
    # alpha(vp, vm) as used by _shooting / findMatching / matchDeflagOrHybInitial is the inverse relation
    vw, vp = real("vw"), real("vp")
    # _shooting: only the alpha expression is needed - run up to wFromAlpha through a contract that records its argument
    rec = {}

    def wfa(it, so, a, k):
        it.event(kind="contract-call", name="wFromAlpha", args=list(a))
        return real("wp")

    def integ(it, so, a, k):
        from wgvc.builtins_model import as_array
        return SymObj(None, None, label="sol", attrs={"y": as_array([[it.fresh_real("xiEnd")], [it.fresh_real("wEnd")]]), "t": as_array([it.fresh_real("vEnd")])})

    def mk2(it):
        for c in POS + [Gt(vw, 0), Lt(vw, 1), Gt(vp, 0), Lt(vp, 1)]:
            it.assume(c)
        return make_template(), [vw, vp], {}, {}
    paths = chk.summarize(MODULE, "HydrodynamicsTemplateModel._shooting", mk2,
                          registry={"HydrodynamicsTemplateModel.wFromAlpha": wfa, "HydrodynamicsTemplateModel.integratePlasma": integ})
    n = 0
    for i, p in enumerate(paths):
        calls = [e for e in p.events if e.get("name") == "wFromAlpha"]
        if not calls:
            continue
        n += 1
        al_used = calls[0]["args"][0]
        vm_used = sp.Piecewise((vw, Lt(vw, cb)), (cb, True))
        chk.vc(f"_shooting.alpha-is-inverse-of-getVp.{i}", p.pc + [Ne(vp, 1)],
               And(Implies(Lt(vw, cb), wall_relation(vp, vw, al_used)), Implies(Ge(vw, cb), wall_relation(vp, cb, al_used))),
               func=f"{TQ}._shooting")
    if n == 0:
        chk.undecided.append("_shooting: alpha expression not reached")


def c_wFromAlpha(chk):
    fn = f"{TQ}.wFromAlpha"
    al = real("al")

    def mk(it):
        for c in POS:
            it.assume(c)
        return make_template(), [al], {}, {}
    wf_paths = sel(chk.summarize(MODULE, "HydrodynamicsTemplateModel.wFromAlpha", mk))
    template_cross(chk, "wFromAlpha", wf_paths, ["al"], lambda rnd, env: {"al": rnd.uniform(0.01, 0.3)})
    for i, p in enumerate(wf_paths):
        w = p.value
        A, B = (1 - 3 * alN) * mu_ - nu_, (1 - 3 * al) * mu_ - nu_
        chk.vc(f"wFromAlpha.template-eos.{i}", p.pc + [Ne(A, 0), Ne(B, 0)], Eq(w * B, A), func=fn)
        chk.canary(f"wFromAlpha.template-eos.{i}", p.pc + [Ne(A, 0), Ne(B, 0)], Eq(w * B, -A), func=fn)


def c_boundaries(chk):
    fn = f"{TQ}.findHydroBoundaries"
    vw = real("vw")
    m = {k: real(f"match.{k}") for k in ("vp", "vm", "Tp", "Tm")}

    def matching(it, so, a, k):
        return (m["vp"], m["vm"], m["Tp"], m["Tm"])

    def mk(it):
        for c in POS + [Gt(m["vp"], 0), Lt(m["vp"], 1), Gt(m["Tp"], 0)]:
            it.assume(c)
        return make_template(), [vw], {}, {}
    n = 0
    for i, p in enumerate(sel(chk.summarize(MODULE, "HydrodynamicsTemplateModel.findHydroBoundaries", mk,
                                            registry={"HydrodynamicsTemplateModel.findMatching": matching}))):
        if len(p.value) != 5 or not isinstance(p.value[0], sp.Basic) or p.value[0] == 0:
            continue
        n += 1
        c1, c2, Tp, Tm, vmid = p.value
        w = wH(m["Tp"])
        pH = pN + (w - wN) / mu_
        chk.vc(f"findHydroBoundaries.template.c1.{i}", p.pc, Eq(c1, -w * gammaSq(m["vp"]) * m["vp"]), func=fn)
        chk.vc(f"findHydroBoundaries.template.c2.{i}", p.pc, Eq(c2, pH + w * gammaSq(m["vp"]) * m["vp"]**2), func=fn)
        chk.vc(f"findHydroBoundaries.template.rest.{i}", p.pc, And(Eq(Tp, m["Tp"]), Eq(Tm, m["Tm"]), Eq(vmid, -(m["vp"] + m["vm"]) / 2)), func=fn)
        chk.canary(f"findHydroBoundaries.template.{i}", p.pc, Eq(c1, w * gammaSq(m["vp"]) * m["vp"]), func=fn)
    if n == 0:
        chk.undecided.append("template findHydroBoundaries: no path with a matching")


def c_findvwLTE(chk):
    """HydrodynamicsTemplateModel.findvwLTE.  With the definitions of alN and psiN proved in __init__ (for ANY equation of state)
         3 alN wN = (e+ - e-) - (p+ - p-)/cb^2,   psiN wN = w-,   (nu - 1) cb^2 = 1,   e = w - p       at Tn,
    the first guard  alN < (1 - psiN)/3  is  p+(Tn) > p-(Tn): the symmetric phase has the larger pressure, nothing drives the wall; and with
    the template's broken phase (p- = w-/nu) the second guard  alN <= (mu - nu)/(3 mu)  is  w+(Tn)/mu <= p+(Tn): non-positive vacuum
    energy of the symmetric phase.  Obligations: the static sentinel 0 is returned exactly in these two situations, the runaway sentinel
    exactly when alN exceeds maxAl(100) or the shooting residual at vJ is negative, and otherwise the result is the root of the shooting
    residual  _shooting(vw, getVp(min(cb, vw), solveAlpha(vw)))  bracketed by [1e-3, vJ] with the object's tolerances."""
    fn = f"{TQ}.findvwLTE"
    ALPHA, GETVP, SHOOT = specfun("solveAlpha"), specfun("getVp"), specfun("shooting")
    maxal = real("maxAl100")
    reg = {"HydrodynamicsTemplateModel.maxAl": lambda it, so, a, k: (it.event(kind="contract-call", name="maxAl", args=list(a) + [k.get("upperLimit")]), maxal)[1],
           "HydrodynamicsTemplateModel.solveAlpha": lambda it, so, a, k: ALPHA(a[0]),
           "HydrodynamicsTemplateModel.getVp": lambda it, so, a, k: GETVP(a[0], a[1]),
           "HydrodynamicsTemplateModel._shooting": lambda it, so, a, k: SHOOT(a[0], a[1])}
    from wgvc import stubs
    vJt = real("vJt")

    def resid(vw):
        vm = sp.Piecewise((cb, Lt(cb, vw)), (vw, True))
        return SHOOT(vw, GETVP(vm, ALPHA(vw)))
    # the EOS quantities at Tn behind alN and psiN
    pP, pM, wM = real("pPlusN"), real("pMinusN"), real("wMinusN")
    eos = POS + [Eq(psi * wN, wM), Eq((nu_ - 1) * cb**2, 1),
                 Eq(3 * alN * wN, (wN - pP) - (wM - pM) - (pP - pM) / cb**2)]
    tmpl_low = [Eq(pM * nu_, wM)]

    def mk(it):
        for c in POS + [Gt(vJt, sym.R(1, 1000)), Lt(vJt, 1)]:
            it.assume(c)
        return make_template(), [], {}, {}
    paths = chk.summarize(MODULE, "HydrodynamicsTemplateModel.findvwLTE", mk, registry=reg, externals=stubs.EXTERNALS)
    rets = sel(paths)
    g1 = Gt(pP, pM)                       # no driving pressure
    g2 = Le(wN / mu_, pP)                 # vacuum energy of the symmetric phase <= 0
    kinds = {"zero": 0, "one": 0, "root": 0}
    for i, p in enumerate(rets):
        v = p.value
        rs = [e for e in p.events if e.get("kind") == "root_scalar" and e.get("site", "").endswith("findvwLTE")]
        if isinstance(v, (int, float)) or (isinstance(v, sp.Basic) and v.is_number):
            if v == 0:
                kinds["zero"] += 1
                chk.vc(f"template.findvwLTE.static-sentinel-reason.{i}", p.pc + eos + tmpl_low, Or(g1, g2), func=fn)
                chk.canary(f"template.findvwLTE.static-sentinel-reason.{i}", p.pc + eos + tmpl_low, And(g1, g2), func=fn)
                chk.reach(f"template.findvwLTE.static.{i}", p.pc + eos + tmpl_low, func=fn)
                continue
            if v == 1:
                kinds["one"] += 1
                chk.vc(f"template.findvwLTE.runaway-sentinel-reason.{i}", p.pc + eos + tmpl_low,
                       And(Not(g1), Not(g2), Or(Gt(alN, maxal), Lt(resid(vJt), 0))), func=fn)
                calls = [e for e in p.events if e.get("name") == "maxAl"]
                chk.vc(f"template.findvwLTE.maxAl-upper-limit.{i}", p.pc, sym.to_sym(bool(calls) and all(100 in [x for x in e["args"] if isinstance(x, int)] for e in calls)), func=fn)
                continue
        kinds["root"] += 1
        if len(rs) != 1 or "root" not in rs[0]:
            chk.undecided.append("template findvwLTE: returning path without its root find")
            continue
        e = rs[0]
        chk.vc(f"template.findvwLTE.not-a-sentinel-case.{i}", p.pc + eos + tmpl_low, And(Not(g1), Not(g2), Le(alN, maxal), Ge(resid(vJt), 0)), func=fn)
        chk.vc(f"template.findvwLTE.result-is-bracketed-root.{i}", p.pc, And(Eq(v, e["root"]), Eq(e["a"], sym.R(1, 1000)), Eq(e["b"], vJt),
                                                                            Eq(e["xtol"], real("atol")), Eq(e["rtol"], real("rtol"))), func=fn)
        chk.vc(f"template.findvwLTE.root-function-is-shooting-residual.{i}", p.pc, Eq(e["generic_f"], resid(e["generic_x"])), func=fn)
        chk.vc(f"template.findvwLTE.root-solves-residual.{i}", p.pc + [e["converged"]], Eq(resid(v), 0), func=fn)
        chk.canary(f"template.findvwLTE.root-solves-residual.{i}", p.pc + [e["converged"]], Eq(resid(v), 1), func=fn)
        chk.reach(f"template.findvwLTE.root.{i}", p.pc + eos + tmpl_low, func=fn)
    if min(kinds.values()) == 0:
        chk.undecided.append(f"template findvwLTE: path classes missing {kinds}")
    for p in sel(paths, "raise"):
        if p.exc.cls != "ValueError":
            chk.undecided.append(f"template findvwLTE raises {p.exc.cls}")


def _tm_registry():
    """contracts of the closed forms proved above, as callee contracts"""
    WFA, FTM, SHOOT, GETVP, SOLVE = (specfun(n) for n in ("wFromAlpha", "findTm", "shooting", "getVp", "solveAlphaNC"))
    reg = {"HydrodynamicsTemplateModel.wFromAlpha": lambda it, so, a, k: (it.event(kind="contract-call", name="wFromAlpha", args=list(a)), WFA(a[0]))[1],
           "HydrodynamicsTemplateModel._findTm": lambda it, so, a, k: FTM(a[0], a[1], a[2]),
           "HydrodynamicsTemplateModel._shooting": lambda it, so, a, k: SHOOT(a[0], a[1]),
           "HydrodynamicsTemplateModel.getVp": lambda it, so, a, k: GETVP(a[0], a[1]),
           "HydrodynamicsTemplateModel.solveAlpha": lambda it, so, a, k: (it.event(kind="contract-call", name="solveAlpha", args=list(a) + [k.get("constraint")]), SOLVE(a[0]))[1],
           "HydrodynamicsTemplateModel.detonationVAndT": lambda it, so, a, k: (it.event(kind="contract-call", name="detonationVAndT", args=list(a)),
                                                                               tuple(real(f"det.{n}") for n in ("vp", "vm", "Tp", "Tm")))[1]}
    return reg, WFA, FTM, SHOOT, GETVP, SOLVE


def c_template_matching(chk):
    """Template findMatching / matchDeflagOrHybInitial / minVelocity: what is handed to the root finder and how the result is turned into
    (v+, v-, T+, T-): v- = min(cb, vw); alpha+ is the junction relation solved for alpha at (v+, v-); w+(T+) = wN wFromAlpha(alpha+)
    with the template enthalpy; T- from _findTm (energy flux, proved above)."""
    from wgvc import stubs
    fn = f"{TQ}.findMatching"
    reg, WFA, FTM, SHOOT, GETVP, SOLVE = _tm_registry()
    vw, vJt, vMint = real("vw"), real("vJt"), real("vMint")
    cs2 = real("cs2")
    pre = POS + [Gt(vw, 0), Lt(vw, 1), Gt(cs2, 0), Lt(cs2, 1), Gt(vJt, 0), Lt(vJt, 1), Ge(vMint, 0)]
    vm_spec = sp.Piecewise((cb, Lt(cb, vw)), (vw, True))

    def mk(it):
        for c in pre:
            it.assume(c)
        return make_template(), [vw], {}, {}
    paths = chk.summarize(MODULE, "HydrodynamicsTemplateModel.findMatching", mk, registry=reg, externals=stubs.EXTERNALS)
    kinds = {"detonation": 0, "none": 0, "root": 0}
    for i, p in enumerate(sel(paths)):
        v = p.value
        det = [e for e in p.events if e.get("name") == "detonationVAndT"]
        rs = [e for e in p.events if e.get("kind") == "root_scalar" and e.get("site", "").endswith("findMatching")]
        if det:
            kinds["detonation"] += 1
            chk.vc(f"template.findMatching.detonation-iff-above-vJ.{i}", p.pc, And(Gt(vw, vJt), sym.to_sym(all(a is b for a, b in zip(v, [real(f"det.{n}") for n in ("vp", "vm", "Tp", "Tm")])))), func=fn)
            continue
        if all(x is None for x in v):
            kinds["none"] += 1
            chk.vc(f"template.findMatching.no-solution-reason.{i}", p.pc,
                   And(Le(vw, vJt), Or(Lt(vw, vMint), sym.to_sym(any(e.get("raised") for e in rs)))), func=fn)
            continue
        kinds["root"] += 1
        if len(rs) != 1 or "root" not in rs[0]:
            chk.undecided.append("template findMatching: returning path without its root find")
            continue
        e = rs[0]
        vp, vm, Tp, Tm = v
        chk.vc(f"template.findMatching.window.{i}", p.pc, And(Le(vw, vJt), Ge(vw, vMint)), func=fn)
        chk.vc(f"template.findMatching.root-of-shooting-residual.{i}", p.pc,
               And(Eq(vp, e["root"]), Eq(e["generic_f"], SHOOT(vw, e["generic_x"])), Eq(e["a"], 0), Le(e["b"], vw), Le(e["b"], cs2 / vw),
                   Eq(e["xtol"], real("atol")), Eq(e["rtol"], real("rtol"))), func=fn)
        chk.vc(f"template.findMatching.vm-is-min-cb-vw.{i}", p.pc, Eq(vm, vm_spec), func=fn)
        # the enthalpy w+ = wFromAlpha(alpha+(v+)) changes sign where D(v) := (1 - 3 alpha+(v)) mu - nu vanishes; by the lemma below
        # D(v) (1 - v^2) v- = -Q(v) with Q(v) = v- nu (mu-1) v^2 - mu (1 + v-^2 (nu-1)) v + nu v-, whose roots have product cs^2, so only the
        # smaller root v_s can lie below vpMax = min(cs^2/vw, vw).  If it lies inside (0, vpMax) the bracket must end below it
        # (the root finder would otherwise be handed a residual with a pole).
        disc = (mu_ + vm**2 * mu_ * (nu_ - 1))**2 - 4 * vm**2 * nu_**2 * (mu_ - 1)        # (vm: the v- of this path, = min(cb, vw) by the obligation above)
        v_s = (mu_ * (1 + vm**2 * (nu_ - 1)) - sp.sqrt(disc)) / (2 * vm * nu_ * (mu_ - 1))
        vpmax0 = sp.Min(cs2 / vw, vw)
        chk.vc(f"template.findMatching.bracket-ends-below-the-enthalpy-sign-change.{i}", p.pc + [Ge(disc, 0), Gt(v_s, 0), Lt(v_s, vpmax0)],
               Lt(e["b"], v_s), func=fn)
        # T+ : w+(T+) = wN * wFromAlpha(alpha+), alpha+ the junction relation solved at (vp, vm); T- : _findTm(vm, vp, T+)
        wcalls = [c_ for c_ in p.events if c_.get("name") == "wFromAlpha"]
        if len(wcalls) != 1:
            chk.undecided.append("template findMatching: expected one wFromAlpha call")
            continue
        alp = wcalls[0]["args"][0]
        chk.vc(f"template.findMatching.alpha-plus-solves-wall-relation.{i}", p.pc + [Gt(vp, 0), Lt(vp, 1)], wall_relation(vp, vm, alp), func=fn)
        chk.vc(f"template.findMatching.Tplus-from-enthalpy.{i}", p.pc + [Gt(WFA(alp), 0)], Eq(wH(Tp), wN * WFA(alp)), func=fn)
        chk.canary(f"template.findMatching.Tplus-from-enthalpy.{i}", p.pc + [Gt(WFA(alp), 0)], Eq(wH(Tp), 2 * wN * WFA(alp)), func=fn)
        chk.vc(f"template.findMatching.Tminus-from-findTm.{i}", p.pc, Eq(Tm, FTM(vm, vp, Tp)), func=fn)
    if min(kinds.values()) == 0:
        chk.undecided.append(f"template findMatching: path classes missing {kinds}")
    vq, aq, vmq = real("vq"), real("aq"), real("vmq")
    Qv = vmq * nu_ * (mu_ - 1) * vq**2 - mu_ * (1 + vmq**2 * (nu_ - 1)) * vq + nu_ * vmq
    chk.vc("lemma.template.enthalpy-sign-change-is-a-root-of-Q", POS + [Gt(vq, 0), Lt(vq, 1), Gt(vmq, 0), Lt(vmq, 1), wall_relation(vq, vmq, aq), Eq((nu_ - 1) * cb**2, 1)],
           Eq(((1 - 3 * aq) * mu_ - nu_) * (1 - vq**2) * vmq, -Qv), func="lemma", kind="lemma")
    # matchDeflagOrHybInitial
    fn2 = f"{TQ}.matchDeflagOrHybInitial"
    vpin = real("vpIn")
    for label, vparg in (("vp-given", vpin), ("lte", None)):
        def mk2(it, vparg=vparg):
            for c in pre + [Gt(vpin, 0), Lt(vpin, 1)]:
                it.assume(c)
            return make_template(), [vw, vparg], {}, {}
        rets = sel(chk.summarize(MODULE, "HydrodynamicsTemplateModel.matchDeflagOrHybInitial", mk2, registry=reg))
        if not rets:
            chk.undecided.append(f"matchDeflagOrHybInitial[{label}]: no returning path")
        for i, p in enumerate(rets):
            Tp, Tm = p.value
            vm_here = sp.Piecewise((vw, Lt(vw, cb)), (cb, True))
            if vparg is not None:
                wcalls = [c_ for c_ in p.events if c_.get("name") == "wFromAlpha"]
                if len(wcalls) != 1:
                    chk.undecided.append("matchDeflagOrHybInitial: expected one wFromAlpha call")
                    continue
                alp = wcalls[0]["args"][0]
                chk.vc(f"template.matchDeflagOrHybInitial.{label}.alpha-plus-solves-wall-relation.{i}", p.pc, wall_relation(vpin, vm_here, alp), func=fn2)
                chk.vc(f"template.matchDeflagOrHybInitial.{label}.Tplus-from-enthalpy.{i}", p.pc + [Gt(WFA(alp), 0)], Eq(wH(Tp), wN * WFA(alp)), func=fn2)
                chk.vc(f"template.matchDeflagOrHybInitial.{label}.Tminus-from-findTm.{i}", p.pc, Eq(Tm, FTM(vm_here, vpin, Tp)), func=fn2)
            else:
                calls = [e for e in p.events if e.get("name") == "solveAlpha"]
                ok = len(calls) == 1 and calls[0]["args"][0] is vw and (calls[0]["args"][-1] is False or (len(calls[0]["args"]) > 2 and calls[0]["args"][1] is False))
                chk.vc(f"template.matchDeflagOrHybInitial.{label}.alpha-unconstrained.{i}", p.pc, sym.to_sym(bool(ok)), func=fn2)
                al = SOLVE(vw)
                chk.vc(f"template.matchDeflagOrHybInitial.{label}.Tplus-from-enthalpy.{i}", p.pc + [Gt(WFA(al), 0)], Eq(wH(Tp), wN * WFA(al)), func=fn2)
                chk.vc(f"template.matchDeflagOrHybInitial.{label}.Tminus-from-findTm.{i}", p.pc, Eq(Tm, FTM(vm_here, GETVP(vm_here, al), Tp)), func=fn2)
    # minVelocity: 0 when alN < 1/3 (a wall at rest is a solution), else the velocity at which the plasma in front comes to rest (v+ = 0)
    fn3 = f"{TQ}.minVelocity"

    def mk3(it):
        for c in pre:
            it.assume(c)
        return make_template(), [], {}, {}
    paths3 = chk.summarize(MODULE, "HydrodynamicsTemplateModel.minVelocity", mk3, registry=reg, externals=stubs.EXTERNALS)
    seen = set()
    for i, p in enumerate(sel(paths3)):
        rs = [e for e in p.events if e.get("kind") == "root_scalar"]
        if not rs:
            seen.add("zero")
            chk.vc(f"template.minVelocity.zero-iff-alpha-below-third.{i}", p.pc, And(Eq(p.value, 0), Lt(alN, sym.R(1, 3))), func=fn3)
            continue
        seen.add("root")
        e = rs[0]
        chk.vc(f"template.minVelocity.root-of-shooting-at-vp-zero.{i}", p.pc,
               And(Ge(alN, sym.R(1, 3)), Eq(p.value, e["root"]), Eq(e["generic_f"], SHOOT(e["generic_x"], 0)), Eq(e["a"], sym.R(1, 10**6)), Eq(e["b"], vJt),
                   Eq(e["xtol"], real("atol")), Eq(e["rtol"], real("rtol"))), func=fn3)
    if seen != {"zero", "root"}:
        chk.undecided.append(f"template minVelocity: path classes {sorted(seen)}")


def c_eqWall(chk):
    """_eqWall(al, vm) - the function whose zero solveAlpha looks for - vanishes exactly when the enthalpy ratio w-/w+ that follows from
    ENTROPY conservation T+ gamma+ = T- gamma- with the template EOS,  E = (gamma+^2/gamma-^2)^(nu/2) psiN wFromAlpha(al)^(nu/mu - 1),
    equals the one that follows from ENERGY-FLUX conservation,  R = gamma+^2 v+ / (gamma-^2 v-), given the wall relation between
    (v+, v-, alpha+) that getVp solves:   3 nu _eqWall = E - R.   solveAlpha returns a bracketed root of it with the object's tolerances."""
    from wgvc import stubs
    fn = f"{TQ}._eqWall"
    al, vm, vp = real("al"), real("vm"), real("vpw")
    WFA = specfun("wFromAlpha")
    reg = {"HydrodynamicsTemplateModel.wFromAlpha": lambda it, so, a, k: WFA(a[0]),
           "HydrodynamicsTemplateModel.getVp": lambda it, so, a, k: (it.event(kind="contract-call", name="getVp", args=list(a) + [k.get("branch")]), vp)[1]}
    pre = POS + [Gt(vm, 0), Lt(vm, 1), Gt(vp, 0), Lt(vp, 1), Gt(al, 0), Gt(WFA(al), 0), Eq((nu_ - 1) * cb**2, 1), wall_relation(vp, vm, al),
                 Ne(1 - (nu_ - 1) * vp * vm, 0)]
    for branch in (-1, 1):
        def mk(it, branch=branch):
            for c in pre:
                it.assume(c)
            return make_template(), [al, vm, branch], {}, {}
        for i, p in enumerate(sel(chk.summarize(MODULE, "HydrodynamicsTemplateModel._eqWall", mk, registry=reg))):
            calls = [e for e in p.events if e.get("name") == "getVp"]
            chk.vc(f"_eqWall.branch{branch}.vp-from-getVp.{i}", p.pc, sym.to_sym(len(calls) == 1 and calls[0]["args"][0] is vm and calls[0]["args"][1] is al
                                                                            and branch in [x for x in calls[0]["args"][2:] if isinstance(x, int)]), func=fn)
            R = gammaSq(vp) * vp / (gammaSq(vm) * vm)
            E = (gammaSq(vp) / gammaSq(vm))**(nu_ / 2) * psi * WFA(al)**(nu_ / mu_ - 1)
            chk.vc(f"_eqWall.branch{branch}.entropy-vs-energy-flux.{i}", p.pc, Eq(3 * nu_ * p.value, E - R), func=fn)
            chk.canary(f"_eqWall.branch{branch}.entropy-vs-energy-flux.{i}", p.pc, Eq(3 * nu_ * p.value, E + R), func=fn)
    # solveAlpha
    fn2 = f"{TQ}.solveAlpha"
    EQW = specfun("eqWall")
    vw = real("vw")
    cs2 = real("cs2")
    reg2 = {"HydrodynamicsTemplateModel._eqWall": lambda it, so, a, k: EQW(*(list(a) + [k.get("branch", -1)])[:3])}
    for constraint in (True, False):
        def mk2(it, constraint=constraint):
            for c in POS + [Gt(vw, 0), Lt(vw, 1), Gt(cs2, 0), Lt(cs2, 1)]:
                it.assume(c)
            return make_template(), [vw, constraint], {}, {}
        paths = chk.summarize(MODULE, "HydrodynamicsTemplateModel.solveAlpha", mk2, registry=reg2, externals=stubs.EXTERNALS)
        rets = sel(paths)
        if not rets:
            chk.undecided.append(f"solveAlpha[{constraint}]: no returning path")
        vm_spec = sp.Piecewise((cb, Lt(cb, vw)), (vw, True))
        for i, p in enumerate(rets):
            rs = [e for e in p.events if e.get("kind") == "root_scalar"]
            if len(rs) != 1 or "root" not in rs[0]:
                chk.undecided.append("solveAlpha: returning path without its root find")
                continue
            e = rs[0]
            gx = e["generic_x"]
            gf = e["generic_f"]
            ok_f = isinstance(gf, sp.Basic) and type(gf).__name__ == "eqWall" and gf.args[0] == gx
            tagc = 'constrained' if constraint else 'free'
            chk.vc(f"solveAlpha.{tagc}.root-of-eqWall.{i}", p.pc,
                   And(sym.to_sym(bool(ok_f)), Eq(gf.args[1], vm_spec) if ok_f else sp.false, Eq(p.value, e["root"]), Eq(e["b"], sym.R(1, 3)),
                       Eq(e["xtol"], real("atol")), Eq(e["rtol"], real("rtol"))), func=fn2)
            chk.vc(f"solveAlpha.{tagc}.bracket-starts-above-zero.{i}", p.pc, Gt(e["a"], 0), func=fn2)
            chk.vc(f"solveAlpha.{tagc}.bracket-starts-above-vacuum-bound.{i}", p.pc, Gt(e["a"], (mu_ - nu_) / (3 * mu_)), func=fn2)
            chk.vc(f"solveAlpha.{'constrained' if constraint else 'free'}.branch-choice.{i}", p.pc,
                   sym.to_sym(bool(ok_f)) if not ok_f else Or(Eq(gf.args[2], -1), And(Eq(gf.args[2], 1), Gt(vm_spec, cb**2))), func=fn2)
        for p in sel(paths, "raise"):
            if p.exc.cls not in ("WallGoError",):
                chk.undecided.append(f"solveAlpha raises {p.exc.cls}")


def c_maxAl(chk):
    """maxAl: largest alN with a hybrid LTE solution at the Jouguet velocity.  Its residual  matching(alN)  is the LTE condition of _eqWall
    evaluated for the wall AT the shock front (v+ vw = cs^2, vw = vJ(alN), v- = cb): the state behind the (infinitely thin) shock has
    enthalpy W = w+/wN fixed by energy- and momentum-flux conservation across the front with the template EOS, the strength seen by the
    wall is alpha+(W) (the relation of wFromAlpha), and psi = psiN W^(nu/mu - 1).  The result is a bracketed root of that residual or one of
    the two limits."""
    from wgvc import stubs
    fn = f"{TQ}.maxAl"
    a_ = real("alNx")
    VJ = specfun("templateVJ")
    cs2 = real("cs2")
    reg = {"HydrodynamicsTemplateModel.findJouguetVelocity": lambda it, so, a, k: VJ(a[0])}
    vwj = VJ(a_)
    vp = cs2 / vwj
    W = real("Wfront")
    pre = POS + [Gt(vwj, 0), Lt(vwj, 1), Gt(cs2, 0), Lt(cs2, vwj), Eq((mu_ - 1) * cs2, 1), Gt(W, 0),
                 Eq(gammaSq(vwj) * vwj, W * gammaSq(vp) * vp)]

    def env(it):
        for c in pre:
            it.assume(c)
        t = make_template()
        return {"self": t, "vm": cb}, {}
    for k, q in enumerate(sel(chk.summarize_closure(MODULE, "HydrodynamicsTemplateModel.maxAl", "matching", env, lambda it, cap: ([a_], {}), registry=reg))):
        al = (mu_ - nu_) / (3 * mu_) + (a_ - (mu_ - nu_) / (3 * mu_)) / W
        E = (gammaSq(vp) / gammaSq(cb))**(nu_ / 2) * psi * W**(nu_ / mu_ - 1)
        chk.vc(f"maxAl.matching.front-momentum-flux.{k}", q.pc, Eq(gammaSq(vwj) * vwj**2 - W * gammaSq(vp) * vp**2, (W - 1) / mu_), func=fn + ".<matching>", kind="lemma")
        chk.vc(f"maxAl.matching.alpha-plus-relation.{k}", q.pc, Eq(((1 - 3 * al) * mu_ - nu_) * W, (1 - 3 * a_) * mu_ - nu_), func=fn + ".<matching>", kind="lemma")
        chk.vc(f"maxAl.matching.is-eqWall-at-the-front.{k}", q.pc,
               Eq(q.value, vp * cb * al / (1 - (nu_ - 1) * vp * cb) - (1 - 3 * al - E) / (3 * nu_)), func=fn + ".<matching>")
        chk.canary(f"maxAl.matching.is-eqWall-at-the-front.{k}", q.pc,
                   Eq(q.value, vp * cb * al / (1 - (nu_ - 1) * vp * cb) + (1 - 3 * al - E) / (3 * nu_)), func=fn + ".<matching>")
    # body
    up = real("upperLimit")
    MATCH = specfun("maxAlMatching")

    def mk(it):
        for c in POS + [Gt(up, (1 - psi) / 3)]:
            it.assume(c)
        return make_template(), [up], {}, {}
    from wgvc.interp import Closure
    paths = chk.summarize(MODULE, "HydrodynamicsTemplateModel.maxAl", mk, externals=stubs.EXTERNALS,
                          registry={"HydrodynamicsTemplateModel.maxAl.<matching>": None} if False else None,
                          config={"closure_contracts": {"matching": lambda it, a, k: MATCH(a[0])}})
    rets = sel(paths)
    if not rets:
        chk.undecided.append("maxAl: no returning path")
    low = (1 - psi) / 3
    for i, p in enumerate(rets):
        rs = [e for e in p.events if e.get("kind") == "root_scalar"]
        if rs and "root" in rs[-1]:
            e = rs[-1]
            chk.vc(f"maxAl.result-is-bracketed-root.{i}", p.pc,
                   And(Eq(p.value, e["root"]), Ge(e["a"], low), Le(e["b"], up), Eq(e["xtol"], real("atol")), Eq(e["rtol"], real("rtol"))), func=fn)
        else:
            chk.vc(f"maxAl.limit-returned.{i}", p.pc, Or(Eq(p.value, up), Eq(p.value, low)), func=fn)


def c_init(chk):
    fn = f"{TQ}.__init__"
    H, L = thermo_spec("High"), thermo_spec("Low")
    T0 = real("Tnucl")

    def mk(it):
        th = SymObj("Thermodynamics", "thermodynamics", label="thermodynamics", attrs={"Tnucl": T0})
        t = SymObj("HydrodynamicsTemplateModel", MODULE, label="template")
        it.assume(Gt(H["w"](T0), 0))
        return t, [th], {}, {"t": t}
    reg = eos_registry()
    reg["HydrodynamicsTemplateModel.findJouguetVelocity"] = lambda it, so, a, k: real("vJt")
    reg["HydrodynamicsTemplateModel.minVelocity"] = lambda it, so, a, k: real("vMint")
    paths = chk.summarize(MODULE, "HydrodynamicsTemplateModel.__init__", mk, registry=reg)
    rets = sel(paths)
    if not rets:
        chk.undecided.append("template __init__: no returning path")
    for i, p in enumerate(rets):
        a = p.state["t"].attrs
        eH, eL = H["w"](T0) - H["p"](T0), L["w"](T0) - L["p"](T0)
        facts = p.pc + [Gt(L["csq"](T0), 0), Gt(H["csq"](T0), 0)]
        chk.vc(f"template.__init__.definitions.{i}", facts,
               And(Eq(a["cb2"], L["csq"](T0)), Eq(a["cs2"], H["csq"](T0)), Eq(a["psiN"] * H["w"](T0), L["w"](T0)),
                   Eq(a["alN"] * 3 * H["w"](T0), eH - eL - (H["p"](T0) - L["p"](T0)) / L["csq"](T0)),
                   Eq(a["wN"], H["w"](T0)), Eq(a["pN"], H["p"](T0)), Eq((a["nu"] - 1) * L["csq"](T0), 1), Eq((a["mu"] - 1) * H["csq"](T0), 1),
                   Eq(a["cb"]**2, a["cb2"]), Eq(a["cs"]**2, a["cs2"])), func=fn)
        chk.canary(f"template.__init__.{i}", facts, Eq(a["psiN"] * L["w"](T0), H["w"](T0)), func=fn)
