"""Shared pieces of the sidecar contracts: symbolic pre-states (class invariants as objects),
automatic strongest-postcondition contracts from a summary, spec functions."""
from __future__ import annotations

import sympy as sp

from wgvc.api import *   # noqa: F401,F403
from wgvc.api import SymObj, real, boolean, specfun, Eq, And, Implies, subs
from wgvc import sym

PHASES = ("High", "Low")
ENDS = ("Min", "Max")
COEFFS = ("mu", "a", "epsilon")


def attr_sym(name: str):
    """The symbol standing for ``self.<name>`` in a generic pre-state."""
    return real(f"self.{name}")


def state_map(obj: SymObj, names):
    """Substitution {generic attribute symbol -> current attribute value} for a summary made on a
    generic state, instantiated at the state ``obj`` has now."""
    return {attr_sym(n): sym.to_sym(obj.attrs[n]) for n in names if n in obj.attrs}


def auto_facts(paths, formals, state_names, result_of=lambda p: p.value):
    """Strongest postcondition of a summarised function, as caller-side facts:
    for every returning path  pc_i(state, formals) => result == value_i(state, formals)."""
    def facts(self_obj, actuals, result):
        m = state_map(self_obj, state_names) if self_obj is not None else {}
        for f, a in zip(formals, actuals):
            m[f] = sym.to_sym(a)
        out = []
        for p in paths:
            if p.outcome != "return":
                continue
            pc = [subs(c, m) for c in p.pc]
            out.append(Implies(And(*pc), Eq(result, subs(sym.to_sym(result_of(p)), m))))
        return out
    return facts


# --------------------------------------------------------------------------- Thermodynamics
def thermo_spec(ph: str):
    """Spec functions of one phase: free energy f (with declared derivatives df, ddf) and the
    *reported* pressure and derivatives p, dp, ddp, plus e, de, w, csq."""
    d = {}
    d["f"] = specfun(f"f{ph}", [f"df{ph}"])
    d["df"] = specfun(f"df{ph}", [f"ddf{ph}"])
    d["ddf"] = specfun(f"ddf{ph}", [f"dddf{ph}"])
    d["dddf"] = specfun(f"dddf{ph}")
    d["p"] = specfun(f"p{ph}", [f"dp{ph}"])
    d["dp"] = specfun(f"dp{ph}", [f"ddp{ph}"])
    d["ddp"] = specfun(f"ddp{ph}", [f"dddp{ph}"])
    d["dddp"] = specfun(f"dddp{ph}")
    d["e"] = specfun(f"e{ph}", [f"de{ph}"])
    d["de"] = specfun(f"de{ph}")
    d["w"] = specfun(f"w{ph}")
    d["csq"] = specfun(f"csq{ph}")
    return d


THERMO_STATE = [f"T{e}{ph}T" for ph in PHASES for e in ENDS] + \
               [f"{c}{e}{ph}T" for ph in PHASES for e in ENDS for c in COEFFS]


def make_thermo(traced_suffix: str = ""):
    """Generic Thermodynamics object: every coefficient and range end is a free real."""
    th = SymObj("Thermodynamics", "thermodynamics", label="thermodynamics")
    for n in THERMO_STATE:
        th.attrs[n] = attr_sym(n)
    th.attrs["Tnucl"] = attr_sym("Tnucl")
    for ph in PHASES:
        fe = SymObj("FreeEnergy", "freeEnergy", label=f"freeEnergy{ph}")
        fe.attrs["__phase__"] = ph
        for e in ENDS:
            fe.attrs[f"{e.lower()}PossibleTemperature"] = [
                real(f"self.T{e}{ph}T{traced_suffix}"), boolean(f"freeEnergy{ph}.{e.lower()}IsGenuine")]
        th.attrs[f"freeEnergy{ph}"] = fe
    return th


def free_energy_registry():
    """Assumed contract of FreeEnergy (InterpolatableFunction + CubicSpline): calling it returns the
    free energy f(T) of its phase, ``derivative(T, order=k)`` returns the k-th derivative of f."""
    def call(it, self_obj, args, kwargs):
        ph = self_obj.attrs["__phase__"]
        s = thermo_spec(ph)
        T = args[0]
        return SymObj("FreeEnergyValueType", "freeEnergy", label="feValue",
                      attrs={"veffValue": s["f"](T), "fieldsAtMinimum": Opaque(f"fields{ph}")})

    def derivative(it, self_obj, args, kwargs):
        ph = self_obj.attrs["__phase__"]
        s = thermo_spec(ph)
        T = args[0]
        order = kwargs.get("order", args[1] if len(args) > 1 else 1)
        fn = {1: s["df"], 2: s["ddf"]}[int(order)]
        return SymObj("FreeEnergyValueType", "freeEnergy", label="feDeriv",
                      attrs={"veffValue": fn(T), "fieldsAtMinimum": Opaque(f"dfields{ph}")})
    return {"FreeEnergy.__call__": call, "FreeEnergy.derivative": derivative}


FREE_ENERGY_ASSUMPTION = ("assumed contract: FreeEnergy.__call__(T).veffValue is the free energy f(T) of the phase and "
                          "FreeEnergy.derivative(T, order=k).veffValue is its k-th derivative (CubicSpline.derivative)")


# --------------------------------------------------------------------------- Hydrodynamics
def eos_registry(extra_facts=True):
    """Contract of Thermodynamics as seen by its callers: the reported EOS functions of each phase
    are pure functions of T; w = e + p (C10: w.is-e-plus-p), de = d e/dT, dp = d p/dT (C10 lemmas)."""
    reg = {}
    for ph in PHASES:
        s = thermo_spec(ph)

        def facts(so, a, r, _s=s):
            t = a[0]
            return [Eq(_s["w"](t), _s["e"](t) + _s["p"](t))] if extra_facts else []
        for name in ("p", "dp", "ddp", "e", "de", "w", "csq"):
            reg[f"Thermodynamics.{name}{ph}T"] = pure_call(lambda so, t, _f=s[name]: _f(t), facts)
    reg.update(template_solver_registry())
    return reg


def template_solver_registry():
    """The template model's SOLVER methods as seen from the general solver: values of the *other* implementation (uninterpreted
    functions `template.<method>`), never inlined and never confused with the general solver's own results.  A contract of the general
    solver that expects the full matching and finds a template value in its place fails (seed C06c)."""
    def tup(name, n):
        def call(it, so, a, k):
            args = [x for x in a if x is None or is_scalar(x)]
            it.event(kind="contract-call", name=f"template.{name}", args=list(a))
            fs = [specfun(f"template.{name}.{j}")(*[x if x is not None else sym.to_sym(-1) for x in args]) for j in range(n)]
            return tuple(fs) if n > 1 else fs[0]
        return call

    def is_scalar(x):
        import sympy as _sp
        return isinstance(x, (int, float, _sp.Basic))
    return {"HydrodynamicsTemplateModel.findMatching": tup("findMatching", 4), "HydrodynamicsTemplateModel.findHydroBoundaries": tup("findHydroBoundaries", 5),
            "HydrodynamicsTemplateModel.findvwLTE": tup("findvwLTE", 1), "HydrodynamicsTemplateModel.efficiencyFactor": tup("efficiencyFactor", 1),
            "HydrodynamicsTemplateModel.maxAl": tup("maxAl", 1), "HydrodynamicsTemplateModel.solveAlpha": tup("solveAlpha", 1),
            "HydrodynamicsTemplateModel.detonationVAndT": tup("detonationVAndT", 4)}


EOS_ASSUMPTION = ("callee contract (proved in C10): Thermodynamics.{p,dp,ddp,e,de,w,csq}{High,Low}T are pure functions of T "
                  "with w = e + p, de = de/dT, dp = dp/dT")


def make_hydro(it=None):
    th = SymObj("Thermodynamics", "thermodynamics", label="thermodynamics")
    # the thermodynamics object is shared and its Tnucl can be re-set by its owner at any time: its CURRENT value is a symbol of its own.
    # Hydrodynamics copies it at construction (hy.Tnucl); a method that reads the shared attribute instead of the copy depends on history.
    th.attrs["Tnucl"] = real("thermodynamics.Tnucl.now")
    for ph in PHASES:
        fe = SymObj("FreeEnergy", "freeEnergy", label=f"freeEnergy{ph}")
        fe.attrs["__phase__"] = ph
        for e in ENDS:
            fe.attrs[f"{e.lower()}PossibleTemperature"] = [real(f"T{e}{ph}T"), boolean(f"{e.lower()}IsGenuine{ph}")]
        th.attrs[f"freeEnergy{ph}"] = fe
    tpl = SymObj("HydrodynamicsTemplateModel", "hydrodynamicsTemplateModel", label="template", open_=True)
    for n in ("vJ", "vMin", "cb2", "cs2", "alN", "psiN"):
        tpl.attrs[n] = real(f"template.{n}")
    hy = SymObj("Hydrodynamics", "hydrodynamics", label="hydro")
    hy.attrs.update(thermodynamics=th, template=tpl, Tnucl=real("Tnucl"), TMaxHydro=real("TMaxHydro"),
                    TMinHydro=real("TMinHydro"), rtol=real("rtol"), atol=real("atol"), vJ=real("vJ"),
                    vMin=real("vMin"), vBracketLow=sym.R(1, 1000), success=boolean("success0"),
                    doesPhaseTraceLimitvmax=[boolean("limH0"), boolean("limL0")])
    for ph in PHASES:
        for e in ENDS:
            hy.attrs[f"T{e}{ph}T"] = real(f"T{e}{ph}T")
    return hy


def gammaSq(v):
    return 1 / (1 - v * v)


def mu(xi, v):
    return (xi - v) / (1 - xi * v)


# ---- CPython cross-check / native replay specifications of template-model methods
TEMPLATE_ATTRS = ("mu", "nu", "psiN", "Tnucl", "alN", "cb", "cb2", "cs", "cs2", "wN", "pN", "vJ", "vMin", "rtol", "atol")


def template_sample(rnd):
    cb2, cs2 = rnd.uniform(0.2, 0.33), rnd.uniform(0.2, 0.33)
    return {"mu": 1 + 1 / cs2, "nu": 1 + 1 / cb2, "psiN": rnd.uniform(0.5, 1.0), "Tnucl": rnd.uniform(0.5, 50), "alN": rnd.uniform(0.01, 0.3), "cb": cb2**0.5, "cs": cs2**0.5,
            "cs2": cs2, "wN": 1.0, "pN": rnd.uniform(0.1, 0.3), "vJt": rnd.uniform(0.6, 0.9), "vMint": 0.01, "rtol": 1e-6, "atol": 1e-6, "epsilonT": 0.1}


def template_cross(chk, method, paths, argnames, sample_args, result=None, rtol=1e-8, compare=None):
    """CPython cross-check / native replay specification of a template method (the real class, attributes set directly)"""
    from wgvc.crosscheck import Cross

    def sample(rnd):
        env = template_sample(rnd)
        env.update(sample_args(rnd, env))
        return env

    def scenario(env):
        attrs = {"mu": env["mu"], "nu": env["nu"], "psiN": env["psiN"], "Tnucl": env["Tnucl"], "alN": env["alN"], "cb": env["cb"], "cb2": env["cb"]**2,
                 "cs": env["cs"], "cs2": env["cs2"], "wN": env["wN"], "pN": env["pN"], "vJ": env["vJt"], "vMin": env["vMint"], "rtol": env["rtol"], "atol": env["atol"]}
        return {"module": "WallGo.hydrodynamicsTemplateModel", "method": method, "args": [env[a] if isinstance(a, str) else a for a in argnames],
                "self": {"__stub__": "real", "module": "WallGo.hydrodynamicsTemplateModel", "class": "HydrodynamicsTemplateModel", "attrs": attrs}}
    kw = {"result": result} if result else {}
    if compare:
        kw["compare"] = compare
    chk.cross(Cross(f"HydrodynamicsTemplateModel.{method}", paths, sample, scenario, rtol=rtol, **kw))


# ---- class-level frames, on the real AST
def class_frame(chk, module, cls, writable, constructors=("__init__",), label=None):
    """For every method of ``cls`` other than its constructors: it does not write (directly or through methods of the same object) any
    attribute that the constructor sets up - the constants of the object that the per-call contracts of the other methods rely on
    (history independence) - except the declared per-call state ``writable`` (dict method -> set, key "*" = any method).
    A store to an attribute the constructor does not know (new state added by a change) is not judged here: it is reported as
    *undecided* - it may be harmless bookkeeping or a cache, and the contract has to be extended to say which."""
    import ast as _ast
    from wgvc import source
    from wgvc.effects import frame_of
    mi = source.load_module(module)
    cdef = mi.classes[cls]
    protected = set()
    for c in constructors:
        fc = frame_of(module, cls, c)
        protected |= {a.split("[")[0] for a in fc["stores"]}
    n = 0
    for st in cdef.body:
        if not isinstance(st, _ast.FunctionDef) or st.name in constructors:
            continue
        f = frame_of(module, cls, st.name)
        allowed = set(writable.get("*", set())) | set(writable.get(st.name, set()))
        extra = f["stores"] - allowed
        hits = {a for a in extra if a.split("[")[0] in protected}
        unknown = extra - hits
        chk.vc(f"{label or cls}.frame.{st.name}.writes-only-declared-state", [], sym.to_sym(not hits), func=f"{module}.{cls}.{st.name}", kind="frame",
               meta={"stores": sorted(f["stores"]), "allowed": sorted(allowed), "constants_written": sorted(hits)})
        if unknown:
            chk.undecided.append(f"{cls}.{st.name} writes attribute(s) {sorted(unknown)} that the constructor does not set up: not covered by the class frame")
        n += 1
    if n == 0:
        chk.undecided.append(f"class frame of {cls}: no methods found")


def hydro_frame(chk):
    """Hydrodynamics: the window constants (vJ, vMin, vBracketLow, the temperature ranges, Tnucl, tolerances, collaborators) are written by
    the constructor only; the only per-call state is the convergence flag and the two phase-trace-limit flags."""
    class_frame(chk, "hydrodynamics", "Hydrodynamics", {"*": {"success", "doesPhaseTraceLimitvmax", "doesPhaseTraceLimitvmax[...]"}})


def template_frame(chk):
    class_frame(chk, "hydrodynamicsTemplateModel", "HydrodynamicsTemplateModel", {"*": set()})
