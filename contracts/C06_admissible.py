"""C06 - matching solutions are admissible and correctly classified.

Decided clauses (from the statement):
  * deflagration/hybrid matching: v-^2 = min(vw^2, cs^2_low(T-)), hence v- == vw or v- == cs_low(T-), v- <= vw, v- >= 0;
  * detonation matching: v+ == vw, T+ == Tn, v-^2 == (v+v-)/(v+/v-);
  * the Jouguet velocity is the Chapman-Jouguet point: the residual whose zero is searched is the numerator
    of d(v+^2)/dT-; at its zero v-^2 == cs^2_low(T-) (CJ lemma); the returned value is v+ there;
  * template model: the closed form of vJ is the larger root of the CJ quadratic and detonationVAndT(vJ) has v- = cb;
  * fastestDeflag / slowestDeton: what is returned on each path and when the range flags are set.
Not decided: 0 < v < 1, v+ < v-, T+ > Tn, weak-vs-strong branch, monotonicity of T(vw).
"""
from __future__ import annotations

import sympy as sp

from wgvc.api import *            # noqa: F401,F403
from wgvc import sym, stubs
from wgvc.smt import quick_sat
from .common import thermo_spec, eos_registry, make_hydro, gammaSq, EOS_ASSUMPTION
from .C02_junction import hydro_registry, _mdh_blocks, vpvmF, vpovmF, vpvm_facts, invMapT, HY

PROPERTY = "C06"
MODULE = "hydrodynamics"
MIN_OBLIGATIONS = 25
H, L = thermo_spec("High"), thermo_spec("Low")
Tn = real("Tnucl")


def build(chk):
    chk.assume_note(EOS_ASSUMPTION)
    c_deflag(chk)
    c_deton(chk)
    c_jouguet(chk)
    c_template_vj(chk)
    c_fastest(chk)
    c_slowest(chk)
    c_min_velocity(chk)
    c_init(chk)
    from .common import hydro_frame
    hydro_frame(chk)
    from . import C15_template as T15
    T15.c_template_matching(chk)
    from .common import template_frame
    template_frame(chk)
    # Thermodynamics.csqLowT (observation point; v-^2 = min(vw^2, csqLowT(T-))) and the other EOS methods: the reported sound speed is
    # (dp/dT)/(de/dT) in every region of each phase's own range (shared with C10)
    from .C10_thermodynamics import c_eos
    c_eos(chk)


def c_deflag(chk):
    vw, vpin = real("vw"), real("vpIn")
    pre = [Gt(vw, 0), Lt(vw, 1), Gt(Tn, 0), Gt(real("TMaxHydro"), real("TMinHydro")), Gt(real("TMinHydro"), 0)]
    fn = f"{HY}.matchDeflagOrHyb"
    for mode in ("vp-given", "entropy"):
        def mk(it, mode=mode):
            hy = make_hydro()
            for c in pre:
                it.assume(c)
            return hy, ([vw, vpin] if mode == "vp-given" else [vw]), {}, {"hy": hy}
        paths = chk.summarize(MODULE, "Hydrodynamics.matchDeflagOrHyb", mk, registry=hydro_registry(),
                              externals=stubs.EXTERNALS, block_specs=_mdh_blocks())
        rets = sel(paths)
        if not rets:
            chk.undecided.append(f"matchDeflagOrHyb[{mode}]: no returning path")
        for i, p in enumerate(rets):
            vp, vm, Tp, Tm = p.value
            csq = L["csq"](Tm)
            chk.vc(f"matchDeflagOrHyb.{mode}.vm-is-vw-or-sound-speed.{i}", p.pc + [Ge(csq, 0)],
                   Or(Eq(vm, vw), Eq(vm * vm, csq)), func=fn)
            chk.vc(f"matchDeflagOrHyb.{mode}.vm-not-above-vw.{i}", p.pc + [Ge(csq, 0)], And(Le(vm, vw), Ge(vm, 0)), func=fn)
            chk.vc(f"matchDeflagOrHyb.{mode}.vm-subsonic.{i}", p.pc + [Ge(csq, 0)], Le(vm * vm, csq), func=fn)
            chk.vc(f"matchDeflagOrHyb.{mode}.hybrid-iff-supersonic-wall.{i}", p.pc + [Ge(csq, 0), Gt(vw * vw, csq)],
                   Eq(vm * vm, csq), func=fn)
            chk.canary(f"matchDeflagOrHyb.{mode}.vm.{i}", p.pc + [Ge(csq, 0)], Eq(vm, vw), func=fn)
            if mode == "vp-given":
                chk.vc(f"matchDeflagOrHyb.{mode}.vp-is-input.{i}", p.pc, Eq(vp, vpin), func=fn)
            chk.reach(f"matchDeflagOrHyb.{mode}.{i}", p.pc + [Ge(csq, 0)], func=fn)


def c_deton(chk):
    vw = real("vw")
    pre = [Gt(vw, 0), Lt(vw, 1)]
    fn = f"{HY}.matchDeton"

    def mk(it):
        hy = make_hydro()
        for c in pre:
            it.assume(c)
        return hy, [vw], {}, {"hy": hy}
    paths = chk.summarize(MODULE, "Hydrodynamics.matchDeton", mk, registry=hydro_registry(), externals=stubs.EXTERNALS)
    n = 0
    for i, p in enumerate(sel(paths)):
        vp, vm, Tp, Tm = p.value
        if not isinstance(vm, sp.Basic):
            continue
        n += 1
        r0, r1 = vpvmF(Tp, Tm), vpovmF(Tp, Tm)
        chk.vc(f"matchDeton.vp-is-vw.{i}", p.pc, And(Eq(vp, vw), Eq(Tp, Tn)), func=fn)
        chk.vc(f"matchDeton.vm-squared.{i}", p.pc + [Gt(r0, 0), Gt(r1, 0)], And(Eq(vm * vm * r1, r0), Ge(vm, 0)), func=fn)
        chk.canary(f"matchDeton.vm-squared.{i}", p.pc + [Gt(r0, 0), Gt(r1, 0)], Eq(vm * vm * r0, r1), func=fn)
        # the root is searched between Tn and the minimiser of the residual (the weak branch)
        evs = [e for e in p.events if e.get("kind") == "root_scalar"]
        mins = [e for e in p.events if e.get("kind") == "minimize_scalar"]
        if len(evs) == 1 and len(mins) == 1:
            chk.vc(f"matchDeton.bracket.{i}", p.pc, And(Eq(evs[0]["a"], Tn), Eq(evs[0]["b"], mins[0]["x"]),
                                                        Le(mins[0]["fun"], 0), Eq(Tm, evs[0]["root"])), func=fn)
        else:
            chk.undecided.append("matchDeton: expected one minimize_scalar and one root_scalar")
    if n == 0:
        chk.undecided.append("matchDeton: no returning path")


# --------------------------------------------------------------------------- Jouguet velocity
def _vp2(tm):
    pH, eH = H["p"](Tn), H["e"](Tn)
    return (pH - L["p"](tm)) * (pH + L["e"](tm)) / ((eH - L["e"](tm)) * (eH + L["p"](tm)))


def c_jouguet(chk):
    fn = f"{HY}.findJouguetVelocity"
    tm = real("tm")
    reg = eos_registry()
    pH, eH = H["p"](Tn), H["e"](Tn)

    # (a) the residual closure is the numerator of d(v+^2)/dT-
    def env(it):
        hy = make_hydro()
        return {"self": hy, "pHighT": pH, "eHighT": eH}, {"hy": hy}
    (p,) = sel(chk.summarize_closure(MODULE, "Hydrodynamics.findJouguetVelocity", "vpDerivNum", env,
                                     lambda it, cap: ([tm], {}), registry=reg))
    den = (eH - L["e"](tm)) * (eH + L["p"](tm))
    chk.vc("findJouguetVelocity.vpDerivNum.is-numerator-of-derivative", p.pc,
           Eq(p.value, deriv(_vp2(tm), tm) * den**2), func=fn + ".<vpDerivNum>", kind="lemma")
    chk.canary("findJouguetVelocity.vpDerivNum", p.pc, Eq(p.value, deriv(_vp2(tm), tm) * den**2 + 1), func=fn + ".<vpDerivNum>")
    resid = p.value

    # (b) CJ lemma: at a zero of that numerator, v-^2 = (v+v-)/(v+/v-) equals cs^2 = dp/de of the low phase
    num1, num2 = pH - L["p"](tm), pH + L["e"](tm)
    den1, den2 = eH - L["e"](tm), eH + L["p"](tm)
    facts = [Eq(resid, 0), Ne(num1, 0), Ne(num2, 0), Ne(den1, 0), Ne(den2, 0), Ne(L["de"](tm), 0), Ne(L["dp"](tm), 0),
             Ne(eH + pH, 0)]
    chk.vc("lemma.chapman-jouguet", facts, Eq(num1 * den2 * L["de"](tm), L["dp"](tm) * den1 * num2), func="lemma", kind="lemma")
    chk.canary("lemma.chapman-jouguet", facts, Eq(num1 * den2 * L["de"](tm), 2 * L["dp"](tm) * den1 * num2), func="lemma")
    chk.reach("lemma.chapman-jouguet", facts, func="lemma")

    # (c) the method: loop contract for the bracket search, then the returned value
    def call_resid(it, envv, t):
        return it.call(envv.lookup("vpDerivNum"), [t], {})

    def inv(it, envv):
        return [Eq(envv.lookup("bracket1"), call_resid(it, envv, envv.lookup("Tmin"))),
                Eq(envv.lookup("bracket2"), call_resid(it, envv, envv.lookup("Tmax"))),
                Le(envv.lookup("Tmax"), real("TMaxHydro"))]
    havoc = {k: (lambda it, _k=k: it.fresh_real(_k)) for k in ("Tmin", "Tmax", "bracket1", "bracket2")}
    loops = {("Hydrodynamics.findJouguetVelocity", 0): loop_spec(inv, havoc)}

    def mk(it):
        hy = make_hydro()
        it.assume(Gt(Tn, 0))
        return hy, [], {}, {"hy": hy}
    paths = chk.summarize(MODULE, "Hydrodynamics.findJouguetVelocity", mk, registry=reg, externals=stubs.EXTERNALS,
                          loop_specs=loops)
    rets = sel(paths)
    if not rets:
        chk.undecided.append("findJouguetVelocity: no returning path")
    for i, q in enumerate(rets):
        evs = [e for e in q.events if e.get("kind") == "root_scalar"]
        if len(evs) != 1:
            chk.undecided.append("findJouguetVelocity: expected one root_scalar call per returning path")
            continue
        e = evs[0]
        r = e["root"]
        chk.vc(f"findJouguetVelocity.root-is-zero-of-numerator.{i}", q.pc, Eq(subs(resid, {tm: r}), 0), func=fn)
        chk.vc(f"findJouguetVelocity.returns-vp-at-root.{i}", q.pc + [Ge(_vp2(r), 0)],
               And(Eq(q.value**2, _vp2(r)), Ge(q.value, 0)), func=fn)
        chk.vc(f"findJouguetVelocity.tolerances.{i}", q.pc, And(Eq(e["xtol"], real("atol")), Eq(e["rtol"], real("rtol"))), func=fn)
        chk.canary(f"findJouguetVelocity.returns-vp-at-root.{i}", q.pc + [Ge(_vp2(r), 0)], Eq(q.value**2, _vp2(r) + 1), func=fn)
    for q in sel(paths, "raise"):
        if q.exc.cls not in ("WallGoError", "ValueError"):
            chk.undecided.append(f"findJouguetVelocity raises {q.exc.cls}")


# --------------------------------------------------------------------------- template model
def make_template():
    t = SymObj("HydrodynamicsTemplateModel", "hydrodynamicsTemplateModel", label="template")
    cb = real("cb")
    t.attrs.update(cb=cb, cb2=cb * cb, cs2=real("cs2"), cs=real("cs"), alN=real("alN"), psiN=real("psiN"),
                   mu=real("mu"), nu=real("nu"), wN=real("wN"), pN=real("pN"), Tnucl=Tn, vJ=real("vJt"),
                   vMin=real("vMint"), rtol=real("rtol"), atol=real("atol"), epsilon=real("epsilonT"))
    return t


def c_template_vj(chk):
    fn = "hydrodynamicsTemplateModel.HydrodynamicsTemplateModel"
    cb, al = real("cb"), real("alN")
    pre = [Gt(cb, 0), Lt(cb, 1), Gt(al, 0)]

    def mk(it):
        for c in pre:
            it.assume(c)
        return make_template(), [], {}, {}
    (p,) = sel(chk.summarize("hydrodynamicsTemplateModel", "HydrodynamicsTemplateModel.findJouguetVelocity", mk))
    from .common import template_cross
    template_cross(chk, "findJouguetVelocity", [p], [], lambda rnd, env: {})
    vJ = p.value
    cb2 = cb * cb
    # CJ condition of the template EOS: with v- = cb the junction relation 3 al (1 - vp^2) vm cb^2 = (vp - vm)(vp vm - cb^2)
    # reduces to  vp^2 (1 + 3 cb^2 al) - 2 cb vp + cb^2 (1 - 3 al) = 0 ; vJ is its larger root
    quad = vJ**2 * (1 + 3 * cb2 * al) - 2 * cb * vJ + cb2 * (1 - 3 * al)
    chk.vc("template.findJouguetVelocity.solves-cj-quadratic", p.pc, Eq(quad, 0), func=fn + ".findJouguetVelocity")
    chk.vc("template.findJouguetVelocity.larger-root", p.pc, Ge(vJ * (1 + 3 * cb2 * al), cb), func=fn + ".findJouguetVelocity")
    chk.canary("template.findJouguetVelocity", p.pc, Eq(quad, 1), func=fn + ".findJouguetVelocity")

    # detonationVAndT: vp = vw, Tp = Tn, vm is the '+' root of the matching quadratic; at vw = vJ it is cb
    vw = real("vw")

    def findTm(it, so, args, kwargs):
        return specfun("findTmF")(*args)

    def mk2(it):
        for c in pre + [Gt(vw, 0), Lt(vw, 1)]:
            it.assume(c)
        return make_template(), [vw], {}, {}
    (q,) = sel(chk.summarize("hydrodynamicsTemplateModel", "HydrodynamicsTemplateModel.detonationVAndT", mk2,
                             registry={"HydrodynamicsTemplateModel._findTm": findTm}))
    vp, vm, Tp, Tm = q.value
    # native cross-check / replay on the first three components (T- comes from _findTm, under contract here)
    template_cross(chk, "detonationVAndT", [q], ["vw"], lambda rnd, env: {"vw": rnd.uniform(0.85, 0.98), "alN": rnd.uniform(0.01, 0.05)},
                   result=lambda pth: list(pth.value[:3]), compare=lambda r: r["result"][:3])
    part = vw**2 + cb2 * (1 - 3 * (1 - vw**2) * al)
    disc = part**2 - 4 * cb2 * vw**2
    f2 = fn + ".detonationVAndT"
    chk.vc("template.detonationVAndT.front-undisturbed", q.pc, And(Eq(vp, vw), Eq(Tp, Tn)), func=f2)
    chk.vc("template.detonationVAndT.vm-solves-matching", q.pc + [Ge(disc, 0)],
           Eq(3 * al * (1 - vw**2) * vm * cb2, (vw - vm) * (vw * vm - cb2)), func=f2)
    chk.vc("template.detonationVAndT.weak-branch", q.pc + [Ge(disc, 0)], Ge(2 * vw * vm, part), func=f2)
    chk.canary("template.detonationVAndT", q.pc + [Ge(disc, 0)], Eq(3 * al * (1 - vw**2) * vm * cb2, (vw + vm) * (vw * vm - cb2)), func=f2)
    # at the Jouguet velocity the discriminant vanishes and v- = cb
    at_vj = subs(vm, {vw: vJ})
    chk.vc("template.detonationVAndT.at-vJ-vm-is-cb", p.pc + [Lt(3 * al * cb2, 1) if False else sp.true,
                                                              Ge(3 * al * (1 - cb2 + 3 * cb2 * al), 0)],
           Eq(at_vj, cb), func=f2)


# --------------------------------------------------------------------------- fastestDeflag / slowestDeton
def _window_registry():
    reg = eos_registry()
    TpF, TmF = specfun("match_Tp"), specfun("match_Tm")

    def matching(it, so, args, kwargs):
        vw = args[0]
        it.event(kind="contract-call", name="findMatching", args=[vw])
        return (specfun("match_vp")(vw), specfun("match_vm")(vw), TpF(vw), TmF(vw))
    reg["Hydrodynamics.findMatching"] = matching
    return reg, TpF, TmF


def c_fastest(chk):
    fn = f"{HY}.fastestDeflag"
    reg, TpF, TmF = _window_registry()
    vJ, vMin = real("vJ"), real("vMin")
    eps = sym.R(1, 1000)

    def mk(it):
        hy = make_hydro()
        return hy, [], {}, {"hy": hy}
    paths = chk.summarize(MODULE, "Hydrodynamics.fastestDeflag", mk, registry=reg, externals=stubs.EXTERNALS)
    rets = sel(paths)
    TMaxL, TMaxH = real("TMaxLowT"), real("TMaxHighT")
    inside = And(Lt(TmF(vJ - eps), TMaxL), Lt(TpF(vJ - eps), TMaxH))
    n_early = n_late = 0
    for i, p in enumerate(rets):
        hy = p.state["hy"]
        roots = [e for e in p.events if e.get("kind") == "root_scalar"]
        if not roots:
            n_early += 1
            chk.vc(f"fastestDeflag.early-return.{i}", p.pc, And(Eq(p.value, vJ), inside), func=fn)
            continue
        n_late += 1
        chk.vc(f"fastestDeflag.late-only-if-range-reached.{i}", p.pc, Not(inside), func=fn)
        # every brentq call searches [vMin + 1e-3, vJ - 1e-3] for Tm = TMaxLowT resp. Tp = TMaxHighT
        cands = []
        limL = limH = None
        for e in roots:
            chk_br = And(Eq(e["a"], vMin + eps), Eq(e["b"], vJ - eps))
            which = None
            if e["fa"] == TmF(e["a"]) - TMaxL:
                which = "Tm"
            elif e["fa"] == TpF(e["a"]) - TMaxH:
                which = "Tp"
            else:
                chk.undecided.append("fastestDeflag: a brentq call with an unexpected residual")
                continue
            chk.vc(f"fastestDeflag.bracket.{which}.{i}", p.pc, chk_br, func=fn)
            if "root" in e:
                cands.append((which, e["root"]))
        cand_vals = {w: r for w, r in cands}
        v1 = cand_vals.get("Tm", vJ)
        v2 = cand_vals.get("Tp", vJ)
        chk.vc(f"fastestDeflag.returns-min-of-candidates.{i}", p.pc,
               And(Le(p.value, v1), Le(p.value, v2), Or(Eq(p.value, v1), Eq(p.value, v2))), func=fn)
        # flags: set iff the root exists and the end of the table is not a genuine end of the phase
        flags = hy.attrs["doesPhaseTraceLimitvmax"]
        genL, genH = boolean("maxIsGenuineLow"), boolean("maxIsGenuineHigh")
        wantL = sp.false if "Tm" not in cand_vals else Not(genL)
        wantH = sp.false if "Tp" not in cand_vals else Not(genH)

        def as_bool(x):
            return sym.to_sym(x)
        oldH, oldL = boolean("limH0"), boolean("limL0")
        # the code leaves a flag untouched when the root exists but the end is genuine: then it keeps its old value
        goalL = Eq(as_bool(flags[1]), oldL) if ("Tm" in cand_vals and genL in p.pc) else Eq(as_bool(flags[1]), wantL)
        goalH = Eq(as_bool(flags[0]), oldH) if ("Tp" in cand_vals and genH in p.pc) else Eq(as_bool(flags[0]), wantH)
        chk.vc(f"fastestDeflag.flag.low.{i}", p.pc, goalL, func=fn)
        chk.vc(f"fastestDeflag.flag.high.{i}", p.pc, goalH, func=fn)
        for w, r in cands:
            tgt = Eq(TmF(r), TMaxL) if w == "Tm" else Eq(TpF(r), TMaxH)
            conv = [e["converged"] for e in roots if e.get("root") is r]
            chk.vc(f"fastestDeflag.candidate-hits-range-end.{w}.{i}", p.pc + conv, tgt, func=fn)
    if n_early == 0 or n_late == 0:
        chk.undecided.append(f"fastestDeflag: path classes missing (early={n_early}, late={n_late})")
    if rets:
        chk.canary("fastestDeflag", rets[-1].pc, Gt(rets[-1].value, vJ), func=fn)


def c_min_velocity(chk):
    """strongestShock(vw): the nucleation temperature of the strongest shock a wall of speed vw can drive: plasma at rest in front of the
    wall (v+ = 0, so the junction conditions reduce to p+(T+) = p-(T-)) with T- at the bottom of the hydrodynamic range; the result is
    solveHydroShock(vw, 0, T+) at a converged root T+ of p_high(T+) - p_low(TMinHydro), or 0 if the pressures do not cross in range.
    minVelocity: root in (vBracketLow, vJ) of strongestShock(vw) - Tnucl with the object's tolerances, or 0 if not bracketed."""
    H, L = thermo_spec("High"), thermo_spec("Low")
    reg = eos_registry()
    SHOCK = specfun("solveHydroShock")
    reg["Hydrodynamics.solveHydroShock"] = lambda it, so, a, k: SHOCK(a[0], a[1], a[2])
    vw = real("vw")
    TminH, TmaxH = real("TMinHydro"), real("TMaxHydro")
    fn = f"{HY}.strongestShock"

    def mk(it):
        hy = make_hydro()
        it.assume(Gt(TminH, 0))
        it.assume(Lt(TminH, TmaxH))
        return hy, [vw], {}, {}
    paths = chk.summarize(MODULE, "Hydrodynamics.strongestShock", mk, registry=reg, externals=stubs.EXTERNALS)
    kinds = set()
    for i, p in enumerate(sel(paths)):
        rs = [e for e in p.events if e.get("kind") == "root_scalar"]
        if len(rs) != 1:
            chk.undecided.append("strongestShock: expected one root find")
            continue
        e = rs[0]
        chk.vc(f"strongestShock.bracket-and-residual.{i}", p.pc,
               And(Eq(e["a"], TminH), Eq(e["b"], TmaxH), Eq(e["generic_f"], H["p"](e["generic_x"]) - L["p"](TminH)),
                   Eq(e["xtol"], real("atol")), Eq(e["rtol"], real("rtol"))), func=fn)
        if "root" in e:
            kinds.add("root")
            chk.vc(f"strongestShock.result-is-shock-from-plasma-at-rest.{i}", p.pc,
                   And(e["converged"], Eq(p.value, SHOCK(vw, 0, e["root"])), Eq(H["p"](e["root"]), L["p"](TminH))), func=fn)
            chk.canary(f"strongestShock.result.{i}", p.pc, Eq(p.value, SHOCK(vw, 1, e["root"])), func=fn)
        else:
            kinds.add("zero")
            chk.vc(f"strongestShock.zero-iff-not-bracketed.{i}", p.pc, And(Eq(p.value, 0), Gt(e["fa"] * e["fb"], 0)), func=fn)
    for p in sel(paths, "raise"):
        if p.exc.cls != "WallGoError":
            chk.undecided.append(f"strongestShock raises {p.exc.cls}")
    if kinds != {"root", "zero"}:
        chk.undecided.append(f"strongestShock: path classes {sorted(kinds)}")
    # minVelocity
    fn2 = f"{HY}.minVelocity"
    STRONG = specfun("strongestShock")
    reg2 = dict(reg)
    reg2["Hydrodynamics.strongestShock"] = lambda it, so, a, k: STRONG(a[0])
    Tn, vJ = real("Tnucl"), real("vJ")

    def mk2(it):
        hy = make_hydro()
        it.assume(Gt(vJ, sym.R(1, 1000)))
        it.assume(Lt(vJ, 1))
        return hy, [], {}, {}
    paths2 = chk.summarize(MODULE, "Hydrodynamics.minVelocity", mk2, registry=reg2, externals=stubs.EXTERNALS)
    kinds = set()
    for i, p in enumerate(sel(paths2)):
        rs = [e for e in p.events if e.get("kind") == "root_scalar"]
        if len(rs) != 1:
            chk.undecided.append("minVelocity: expected one root find")
            continue
        e = rs[0]
        chk.vc(f"minVelocity.bracket-and-residual.{i}", p.pc,
               And(Eq(e["a"], sym.R(1, 1000)), Eq(e["b"], vJ), Eq(e["generic_f"], STRONG(e["generic_x"]) - Tn),
                   Eq(e["xtol"], real("atol")), Eq(e["rtol"], real("rtol"))), func=fn2)
        if "root" in e:
            kinds.add("root")
            chk.vc(f"minVelocity.strongest-shock-reaches-Tn.{i}", p.pc, And(e["converged"], Eq(p.value, e["root"]), Eq(STRONG(p.value), Tn)), func=fn2)
        else:
            kinds.add("zero")
            chk.vc(f"minVelocity.zero-iff-not-bracketed.{i}", p.pc, And(Eq(p.value, 0), Gt(e["fa"] * e["fb"], 0)), func=fn2)
    for p in sel(paths2, "raise"):
        if p.exc.cls != "WallGoError":
            chk.undecided.append(f"minVelocity raises {p.exc.cls}")
    if kinds != {"root", "zero"}:
        chk.undecided.append(f"minVelocity: path classes {sorted(kinds)}")


def c_init(chk):
    """Hydrodynamics.__init__: the window constants every classification rests on: vJ is findJouguetVelocity() (the template's value only when
    that raises WallGoError), vMin = max(vBracketLow, minVelocity()), hydrodynamic temperature range = (tmin, tmax) * Tnucl, phase ranges taken
    from the free-energy objects, flags cleared."""
    fn = f"{HY}.__init__"
    tmax, tmin = real("tmax"), real("tmin")
    vJf, vMinf = real("vJ.found"), real("vMin.found")
    reg = {"HydrodynamicsTemplateModel.__new__": lambda it, cref, a, k: (it.event(kind="new", cls="template", args=list(a), kwargs=dict(k)),
                                                                        SymObj("HydrodynamicsTemplateModel", "hydrodynamicsTemplateModel", label="template-new", attrs={"vJ": real("template.vJ")}))[1],
           "Hydrodynamics.minVelocity": lambda it, so, a, k: (it.event(kind="contract-call", name="minVelocity", vJ=so.attrs.get("vJ"), low=so.attrs.get("vBracketLow")), vMinf)[1]}
    for vj_ok in (True, False):
        def fj(it, so, a, k, vj_ok=vj_ok):
            it.event(kind="contract-call", name="findJouguetVelocity", has_template="template" in so.attrs, Tn=so.attrs.get("Tnucl"))
            if not vj_ok:
                raise PyExc("WallGoError", ("no Jouguet velocity",))
            return vJf
        reg2 = dict(reg)
        reg2["Hydrodynamics.findJouguetVelocity"] = fj

        def mk(it):
            th = make_hydro().attrs["thermodynamics"]
            hy = SymObj("Hydrodynamics", "hydrodynamics", label="hydro-new")
            return hy, [th, tmax, tmin, real("rtol"), real("atol")], {}, {"hy": hy, "th": th}
        rets = sel(chk.summarize(MODULE, "Hydrodynamics.__init__", mk, registry=reg2, record=vj_ok))
        tag = "vJ-found" if vj_ok else "vJ-from-template"
        if not rets:
            chk.undecided.append(f"Hydrodynamics.__init__[{tag}]: no returning path")
        for i, p in enumerate(rets):
            a = p.state["hy"].attrs
            th = p.state["th"]
            T0 = th.attrs["Tnucl"]          # the value of the shared object at construction time
            chk.vc(f"Hydrodynamics.__init__.{tag}.vJ.{i}", p.pc, Eq(a["vJ"], vJf if vj_ok else real("template.vJ")), func=fn)
            mv = [e for e in p.events if e.get("name") == "minVelocity"]
            chk.vc(f"Hydrodynamics.__init__.{tag}.vMin.{i}", p.pc,
                   And(sym.to_sym(len(mv) == 1 and mv[0]["vJ"] is a["vJ"] and mv[0]["low"] is not None), Ge(a["vMin"], sym.R(1, 1000)), Ge(a["vMin"], vMinf),
                       Or(Eq(a["vMin"], sym.R(1, 1000)), Eq(a["vMin"], vMinf)), Eq(a["vBracketLow"], sym.R(1, 1000))), func=fn)
            chk.vc(f"Hydrodynamics.__init__.{tag}.temperature-range.{i}", p.pc,
                   And(Eq(a["TMaxHydro"], tmax * T0), Eq(a["TMinHydro"], tmin * T0), Eq(a["Tnucl"], T0),
                       *[Eq(a[f"T{e}{ph}T"], real(f"T{e}{ph}T")) for ph in ("High", "Low") for e in ("Max", "Min")]), func=fn)
            fj_calls = [e for e in p.events if e.get("name") == "findJouguetVelocity"]
            new = [e for e in p.events if e.get("kind") == "new"]
            chk.vc(f"Hydrodynamics.__init__.{tag}.order-and-flags.{i}", p.pc,
                   sym.to_sym(bool(len(fj_calls) == 1 and fj_calls[0]["has_template"] and len(new) == 1 and new[0]["args"][0] is th
                                   and a["thermodynamics"] is th and a["success"] is False and list(a["doesPhaseTraceLimitvmax"]) == [False, False]
                                   and new[0]["kwargs"].get("rtol") is a["rtol"] and new[0]["kwargs"].get("atol") is a["atol"])), func=fn, kind="frame")


def c_slowest(chk):
    fn = f"{HY}.slowestDeton"
    reg, TpF, TmF = _window_registry()
    vJ = real("vJ")
    TMaxL = real("TMaxLowT")

    def mk(it):
        hy = make_hydro()
        it.assume(Gt(vJ, 0))
        it.assume(Lt(vJ + sym.R(1, 10000), 1))
        return hy, [], {}, {"hy": hy}
    paths = chk.summarize(MODULE, "Hydrodynamics.slowestDeton", mk, registry=reg, externals=stubs.EXTERNALS)
    kinds = set()
    for i, p in enumerate(sel(paths)):
        roots = [e for e in p.events if e.get("kind") == "root_scalar"]
        if not roots:
            kinds.add("one")
            chk.vc(f"slowestDeton.returns-one-iff-too-hot-at-luminal.{i}", p.pc, And(Eq(p.value, 1), Gt(TmF(1), TMaxL)), func=fn)
            continue
        e = roots[0]
        chk.vc(f"slowestDeton.bracket.{i}", p.pc, And(Eq(e["a"], vJ + sym.R(1, 10000)), Eq(e["b"], 1),
                                                     Eq(e["fa"], TmF(e["a"]) - TMaxL)), func=fn)
        if "root" in e:
            kinds.add("root")
            r = e["root"]
            chk.vc(f"slowestDeton.returns-root-plus-margin.{i}", p.pc,
                   And(Le(p.value, 1), Or(Eq(p.value, 1), Eq(p.value, r + sym.R(1, 100))), Ge(p.value, r)), func=fn)
            chk.vc(f"slowestDeton.root-hits-range-end.{i}", p.pc + [e["converged"]], Eq(TmF(r), TMaxL), func=fn)
        else:
            kinds.add("vJ")
            chk.vc(f"slowestDeton.no-root-returns-vJ.{i}", p.pc, Eq(p.value, vJ), func=fn)
    if kinds != {"one", "root", "vJ"}:
        chk.undecided.append(f"slowestDeton: path classes {sorted(kinds)}")
