"""C19 - finite-difference derivatives are exact on low-degree polynomials.

The coefficient and position tables are read from the AST of helpers.py on every run (exact rationals).
derivative / gradient / hessian are interpreted on a *generic polynomial* with symbolic coefficients, so each
obligation covers all polynomials of the stated degree at once (and linearity), for all x and all steps h.
"""
from __future__ import annotations

import itertools
import numpy as np
import sympy as sp

from wgvc.api import *            # noqa: F401,F403
from wgvc import sym
from wgvc.builtins_model import as_array, elementwise
from wgvc.smt import quick_sat

PROPERTY = "C19"
MODULE = "helpers"
MIN_OBLIGATIONS = 40
# least interval widths (in units of the step) for which no stencil leaves [lo, hi]; the statement quantifies over
# points "interior, one step, two steps from either bound", i.e. intervals at least this wide (DESIGN C19, reading b)
WIDTH = {(1, 2): 2, (1, 4): 4, (2, 2): 3, (2, 4): 5}
POINTS = {(1, 2): 2, (1, 4): 4, (2, 2): 3, (2, 4): 5}


def scalar(v):
    return v.reshape(-1)[0] if isinstance(v, np.ndarray) else v


def poly1(deg, tag="a"):
    coeffs = [real(f"{tag}{k}") for k in range(deg + 1)]
    return lambda t: sum(c * t**k for k, c in enumerate(coeffs))


def recorder(fn_of_point, rowwise=False):
    """The function handed to the differentiation helper: evaluates a generic polynomial and records where it was
    evaluated (ghost event 'f-call')."""
    def call(it, args, kwargs):
        pos = as_array(args[0])
        it.event(kind="f-call", pos=pos)
        if rowwise:     # pos has shape (N, nVars): one value per row
            return as_array([fn_of_point(*list(pos[i])) for i in range(pos.shape[0])])
        return elementwise(fn_of_point, pos)
    return Native(call, "polynomial")


def positions(p):
    return [q for e in p.events if e.get("kind") == "f-call" for q in as_array(e["pos"]).reshape(-1)]


class CrossPoly:
    """cross-check spec whose symbolic side depends on the sampled polynomial coefficients (symbols a0..a_deg)"""

    def __init__(self, name, paths, sample, scenario, deg, functions):
        from wgvc.crosscheck import Cross
        self.name, self.paths, self.scenario, self.rtol, self.compare = name, paths, scenario, 1e-6, None
        self._sample, self._functions, self.deg = sample, functions, deg
        self.result = lambda p: scalar(p.value)
        self._cs = None

    def functions(self, rnd):
        nat, symf = self._functions(rnd)
        self._cs = symf.pop("__coeffs__")
        return nat, symf

    def sample(self, rnd):
        env = self._sample(rnd)
        for k, c in enumerate(self._cs):
            env[f"a{k}"] = c
        return env


def build(chk):
    c_effective_potential(chk)
    chk.assume_note("rounding is not modelled: '(x + dx) - x == dx' holds exactly in the reals")
    c_derivative(chk)
    c_gradient(chk)
    c_hessian(chk)


def c_derivative(chk):
    fn = "helpers.derivative"
    x, h, lo, hi = real("x"), real("h"), real("lo"), real("hi")
    for n in (1, 2):
        for order in (2, 4):
            deg = POINTS[(n, order)] - 1
            P = poly1(deg)
            W = WIDTH[(n, order)]
            exact = sp.diff(P(x), x, n)
            for bounded in (True, False):
                pre = [Gt(h, 0)] + ([Le(lo, x), Le(x, hi), Ge(hi - lo, W * h)] if bounded else [])
                tag = f"n{n}.order{order}.{'bounded' if bounded else 'unbounded'}"

                def mk(it, bounded=bounded, n=n, order=order, pre=pre, P=P):
                    for c in pre:
                        it.assume(c)
                    kw = {"n": n, "order": order, "dx": h}
                    if bounded:
                        kw["bounds"] = (lo, hi)
                    return None, [recorder(P), as_array(x)], kw, {}
                paths = chk.summarize(MODULE, "derivative", mk)
                rets = sel(paths)
                if not rets:
                    chk.undecided.append(f"derivative[{tag}]: no returning path")
                if bounded:
                    from wgvc.crosscheck import Cross

                    def functions(rnd, deg=deg):
                        cs = [rnd.uniform(-2, 2) for _ in range(deg + 1)]
                        return ({"P": {"kind": "poly", "vars": 1, "terms": [[[k], c] for k, c in enumerate(cs)]}}, {"__coeffs__": cs})

                    def sample(rnd, W=W):
                        h_ = rnd.choice([1e-3, 1e-2, 0.1, 0.5])
                        lo_ = rnd.uniform(-1, 1)
                        hi_ = lo_ + (W + rnd.uniform(0, 3)) * h_
                        pos = rnd.choice([0, 0.5, 1, 1.5, 2.5]) * h_
                        x_ = rnd.choice([lo_ + pos, hi_ - pos, (lo_ + hi_) / 2])
                        return {"x": x_, "h": h_, "lo": lo_, "hi": hi_}

                    def scenario(env, n=n, order=order):
                        return {"module": "WallGo.helpers", "method": "derivative", "self": None,
                                "args": [{"__stub__": "callable", "fn": "P"}, env["x"]],
                                "kwargs": {"n": n, "order": order, "dx": env["h"], "bounds": [env["lo"], env["hi"]]}}
                    chk.cross(CrossPoly(f"helpers.derivative.n{n}.order{order}", paths, sample, scenario, deg, functions))
                for i, p in enumerate(rets):
                    chk.vc(f"derivative.{tag}.exact.{i}", p.pc, Eq(scalar(p.value), exact), func=fn)
                    chk.canary(f"derivative.{tag}.exact.{i}", p.pc, Eq(scalar(p.value), exact + 1), func=fn)
                    if bounded:
                        chk.vc(f"derivative.{tag}.stays-in-bounds.{i}", p.pc,
                               And(*[And(Le(lo, q), Le(q, hi)) for q in positions(p)]), func=fn)
                        chk.reach(f"derivative.{tag}.{i}", p.pc, func=fn)
                for k, p in enumerate(sel(paths, "raise")):
                    chk.vc(f"derivative.{tag}.no-exception.{k}", p.pc, sp.false, func=fn)
                if not bounded and len(rets) != 1:
                    chk.undecided.append(f"derivative[{tag}]: expected a single path without bounds")
            # tightness of the width requirement: on an interval one step narrower some stencil leaves the bounds
            pre_n = [Gt(h, 0), Le(lo, x), Le(x, hi), Ge(hi - lo, (W - 1) * h), Lt(lo, hi)]

            def mk2(it, n=n, order=order, pre_n=pre_n, P=P):
                for c in pre_n:
                    it.assume(c)
                return None, [recorder(P), as_array(x)], {"n": n, "order": order, "dx": h, "bounds": (lo, hi)}, {}
            goals = []
            for p in sel(chk.summarize(MODULE, "derivative", mk2)):
                goals.append(Implies(And(*p.pc), And(*[And(Le(lo, q), Le(q, hi)) for q in positions(p)])))
            chk.canary(f"derivative.n{n}.order{order}.width-{W}-is-least", pre_n, And(*goals), func=fn)
            # one degree more is NOT differentiated exactly by the one-sided rows (the bound of the statement is sharp)
    P3 = poly1(3)

    def mk0(it):
        return None, [recorder(P3), as_array(x)], {"n": 0}, {}
    (p0,) = sel(chk.summarize(MODULE, "derivative", mk0))
    chk.vc("derivative.n0.is-function-value", p0.pc, Eq(scalar(p0.value), P3(x)), func=fn)
    # array input: shape of the result and elementwise meaning (bounded: length 2)
    xs = [real("x0"), real("x1")]
    P = poly1(3)

    def mk3(it):
        it.assume(Gt(h, 0))
        return None, [recorder(P), as_array(xs)], {"n": 1, "order": 4, "dx": h}, {}
    (p3,) = sel(chk.summarize(MODULE, "derivative", mk3))
    ok = isinstance(p3.value, np.ndarray) and p3.value.shape == (2,)
    chk.bounded.append({"what": "derivative on a length-2 array: result has the input shape and is elementwise", "bound": "array length 2",
                        "held": bool(ok)})
    if ok:
        for j in range(2):
            chk.vc(f"derivative.array.elementwise.{j}", p3.pc, Eq(p3.value[j], sp.diff(P(xs[j]), xs[j])), func=fn)
    else:
        chk.vc("derivative.array.shape", p3.pc, sp.false, func=fn)


def poly_multi(nvars, deg_each, tag="c"):
    idx = list(itertools.product(range(deg_each + 1), repeat=nvars))
    cs = {k: real(f"{tag}{''.join(map(str, k))}") for k in idx}

    def P(*vs):
        return sum(c * sp.Mul(*[v**e for v, e in zip(vs, k)]) for k, c in cs.items())
    return P


def c_effective_potential(chk):
    """EffectivePotential.derivT / derivField / deriv2FieldT / deriv2Field2 / allSecondDerivatives, run end to end THROUGH the real
    helpers on a generic polynomial potential V(phi0, phi1, T) (2 fields): each returns the exact partial derivatives it is named after,
    for every field point, temperature, scale and epsilon; derivT never evaluates the potential at a negative temperature."""
    EP = "effectivePotential.EffectivePotential"
    idx = [k for k in itertools.product(range(4), repeat=3) if sum(k) <= 3]
    cs = {k: real(f"v{k[0]}{k[1]}{k[2]}") for k in idx}

    def V(a, b, t):
        return sum(c * a**k[0] * b**k[1] * t**k[2] for k, c in cs.items())
    f0, f1, T = real("phi0"), real("phi1"), real("T")
    eps, s0, s1, sT = real("epsilon"), real("s0"), real("s1"), real("sT")
    pre = [Gt(eps, 0), Gt(s0, 0), Gt(s1, 0), Gt(sT, 0)]

    def evaluate(it, so, a, k):
        fields, temp = as_array(a[0]), as_array(a[1])
        it.event(kind="V-call", fields=fields, T=temp)
        phi0, phi1 = fields[..., 0], fields[..., 1]
        b = np.broadcast(phi0, phi1, temp)
        out = np.empty(b.shape, dtype=object)
        out.flat = [V(x, y, t) for x, y, t in b]
        return out if out.shape else out.item()
    reg = {"EffectivePotential.evaluate": evaluate, "Fields.castFromNumpy": lambda it, cref, a, k: a[0],
           "Fields.__new__": lambda it, cref, a, k: np.atleast_2d(as_array(a[0]))}

    def make():
        ds = SymObj(None, None, label="derivativeSettings", attrs={"temperatureVariationScale": sT, "fieldValueVariationScale": as_array([s0, s1])})
        o = SymObj("EffectivePotential", "effectivePotential", label="veff",
                   attrs={"fieldCount": 2, "effectivePotentialError": eps, "derivativeSettings": ds,
                          "_EffectivePotential__combinedScales": as_array([s0, s1, sT])})
        return o
    x = [f0, f1, T]
    exact1 = [sp.diff(V(*x), v) for v in x]
    exact2 = [[sp.diff(V(*x), a, b) for b in x] for a in x]
    cases = {
        "derivT": (lambda v: [scalar(as_array(v))], [exact1[2]]),
        "derivField": (lambda v: list(as_array(v).reshape(-1)), exact1[:2]),
        "deriv2FieldT": (lambda v: list(as_array(v).reshape(-1)), [exact2[0][2], exact2[1][2]]),
        "deriv2Field2": (lambda v: list(as_array(v).reshape(-1)), [exact2[0][0], exact2[0][1], exact2[1][0], exact2[1][1]]),
        "allSecondDerivatives": (lambda v: list(as_array(v[0]).reshape(-1)) + list(as_array(v[1]).reshape(-1)) + [scalar(as_array(v[2]))],
                                 [exact2[0][0], exact2[0][1], exact2[1][0], exact2[1][1], exact2[2][0], exact2[2][1], exact2[2][2]]),
    }
    for meth, (flat, want) in list(cases.items()) + [("derivField.integer-fields", cases["derivField"])]:
        int_fields = meth.endswith("integer-fields")
        meth = meth.split(".")[0]

        def mk(it, int_fields=int_fields):
            for c in pre + ([Gt(T, 0)] if meth == "derivT" else []):
                it.assume(c)
            farr = as_array([[f0, f1]])
            if int_fields:
                # the field values happen to be whole numbers held in an INTEGER array (e.g. Fields([110, 130])): the temperature must
                # not be truncated when fields and temperature are packed into one array
                it.int_arrays[id(farr)] = farr
            return make(), [farr, as_array(T) if meth == "derivT" else as_array([T])], {}, {}
        paths = chk.summarize("effectivePotential", f"EffectivePotential.{meth}", mk, registry=reg, record=not int_fields)
        rets = sel(paths)
        if int_fields:
            meth = meth + ".integer-fields"
        if not rets or len(rets) != len(paths):
            chk.undecided.append(f"EffectivePotential.{meth}: {len(paths) - len(rets)} non-returning paths of {len(paths)}")
        for i, p in enumerate(rets):
            try:
                got = flat(p.value)
            except Exception:
                got = []
            if len(got) != len(want):
                chk.vc(f"EffectivePotential.{meth}.shape.{i}", p.pc, sp.false, func=f"{EP}.{meth}")
                continue
            for j, (g, w) in enumerate(zip(got, want)):
                chk.vc(f"EffectivePotential.{meth}.is-the-named-derivative.{i}.{j}", p.pc, Eq(g, w), func=f"{EP}.{meth}")
            chk.canary(f"EffectivePotential.{meth}.{i}", p.pc, Eq(got[0], want[0] + 1), func=f"{EP}.{meth}")
            if meth == "derivT":
                temps = [t for e in p.events if e.get("kind") == "V-call" for t in as_array(e["T"]).reshape(-1)]
                chk.vc(f"EffectivePotential.derivT.temperature-never-negative.{i}", p.pc, And(*[Ge(t, 0) for t in temps]) if temps else sp.false,
                       func=f"{EP}.derivT")


def c_gradient(chk):
    fn = "helpers.gradient"
    for order in (2, 4):
        deg = POINTS[(1, order)] - 1
        for nvars in (2, 3):
            if nvars == 3 and order == 4:
                deg_each = 2      # keep the generic polynomial small: 27 coefficients (degree 3 is covered for nvars = 2)
            else:
                deg_each = deg
            P = poly_multi(nvars, deg_each)
            xs = [real(f"x{i}") for i in range(nvars)]
            hs = [real(f"h{i}") for i in range(nvars)]
            for axis, label in ((None, "all"), (-1, "last"), ([1, 0], "swapped")):
                def mk(it, order=order, axis=axis, P=P, xs=xs, hs=hs):
                    for hh in hs:
                        it.assume(Gt(hh, 0))
                    return None, [recorder(P, rowwise=True), as_array(xs)], {"order": order, "dx": as_array(hs), "axis": axis}, {}
                paths = sel(chk.summarize(MODULE, "gradient", mk))
                if len(paths) != 1:
                    chk.undecided.append(f"gradient[{order},{nvars},{label}]: {len(paths)} paths")
                    continue
                p = paths[0]
                want_axes = list(range(nvars)) if axis is None else ([axis] if isinstance(axis, int) else list(axis))
                val = as_array(p.value)
                if val.shape != (len(want_axes),):
                    chk.vc(f"gradient.order{order}.nvars{nvars}.{label}.shape", p.pc, sp.false, func=fn)
                    continue
                for j, a in enumerate(want_axes):
                    chk.vc(f"gradient.order{order}.nvars{nvars}.{label}.component{j}", p.pc,
                           Eq(val[j], sp.diff(P(*xs), xs[a % nvars])), func=fn)
                chk.canary(f"gradient.order{order}.nvars{nvars}.{label}", p.pc, Eq(val[0], sp.diff(P(*xs), xs[want_axes[0] % nvars]) + 1), func=fn)
    # batch of points: output shape is input shape[:-1] + (number of axes,)   (bounded: 2 points)
    P = poly_multi(2, 1)
    pts = [[real("x00"), real("x01")], [real("x10"), real("x11")]]
    hs = [real("h0"), real("h1")]

    def mkb(it):
        for hh in hs:
            it.assume(Gt(hh, 0))
        return None, [recorder(P, rowwise=True), as_array(pts)], {"order": 2, "dx": as_array(hs)}, {}
    (pb,) = sel(chk.summarize(MODULE, "gradient", mkb))
    vb = as_array(pb.value)
    chk.bounded.append({"what": "gradient on a (2,2) batch: result shape (2,2), row i is the gradient at point i", "bound": "2 points",
                        "held": vb.shape == (2, 2)})
    if vb.shape == (2, 2):
        for i in range(2):
            for a in range(2):
                chk.vc(f"gradient.batch.{i}.{a}", pb.pc, Eq(vb[i, a], sp.diff(P(*pts[i]), pts[i][a])), func=fn)
    # step from scale and epsilon: dx = scale * epsilon**(1/(1+order)), one step per variable
    eps, sc = real("epsilon"), [real("s0"), real("s1")]

    def mks(it):
        it.assume(Gt(eps, 0))
        for s_ in sc:
            it.assume(Gt(s_, 0))
        return None, [recorder(P, rowwise=True), as_array([real("x0"), real("x1")])], {"order": 2, "epsilon": eps, "scale": as_array(sc)}, {}
    (ps,) = sel(chk.summarize(MODULE, "gradient", mks))
    step0 = sc[0] * eps ** sym.R(1, 3)
    pos = [q for q in positions(ps)]
    x0 = real("x0")
    chk.vc("gradient.step-from-scale", ps.pc + [Gt(step0, 0)],
           Or(*[Eq(q, x0 + step0) for q in pos]), func=fn)


def c_hessian(chk):
    fn = "helpers.hessian"
    for order in (2, 4):
        total = order + 1
        nvars = 2
        idx = [k for k in itertools.product(range(total + 1), repeat=nvars) if sum(k) <= total]
        cs = {k: real(f"c{k[0]}{k[1]}") for k in idx}

        def P(u, v, cs=cs):
            return sum(c * u**k[0] * v**k[1] for k, c in cs.items())
        xs = [real("x0"), real("x1")]
        hs = [real("h0"), real("h1")]

        def mk(it, order=order, P=P):
            for hh in hs:
                it.assume(Gt(hh, 0))
            return None, [recorder(P, rowwise=True), as_array(xs)], {"order": order, "dx": as_array(hs)}, {}
        paths = sel(chk.summarize(MODULE, "hessian", mk))
        if len(paths) != 1:
            chk.undecided.append(f"hessian[{order}]: {len(paths)} paths")
            continue
        p = paths[0]
        val = as_array(p.value)
        if val.shape != (2, 2):
            chk.vc(f"hessian.order{order}.shape", p.pc, sp.false, func=fn)
            continue
        for i in range(2):
            for j in range(2):
                chk.vc(f"hessian.order{order}.entry{i}{j}", p.pc, Eq(val[i, j], sp.diff(P(*xs), xs[i], xs[j])), func=fn)
        chk.canary(f"hessian.order{order}", p.pc, Eq(val[0, 1], sp.diff(P(*xs), xs[0], xs[1]) + 1), func=fn)
        # axis selection: rows xAxis, columns yAxis

        def mk2(it, order=order, P=P):
            for hh in hs:
                it.assume(Gt(hh, 0))
            return None, [recorder(P, rowwise=True), as_array(xs)], {"order": order, "dx": as_array(hs), "xAxis": 1, "yAxis": [0, -1]}, {}
        (q,) = sel(chk.summarize(MODULE, "hessian", mk2))
        v2 = as_array(q.value)
        if v2.shape != (1, 2):
            chk.vc(f"hessian.order{order}.axes.shape", q.pc, sp.false, func=fn)
        else:
            chk.vc(f"hessian.order{order}.axes", q.pc, And(Eq(v2[0, 0], sp.diff(P(*xs), xs[1], xs[0])),
                                                          Eq(v2[0, 1], sp.diff(P(*xs), xs[1], xs[1]))), func=fn)
