"""C12 - the Boltzmann solution reflects the physics, not the discretisation choices.

The real buildLinearEquations / solveBoltzmannEquations / setBackground / _feq / _dfeq are interpreted on a small grid
(M = 3, N = 3, two particles, real Gauss-Lobatto nodes) with SYMBOLIC background profiles, masses, coordinates, Jacobians and
collision tensor; spectral matrices come from the real Polynomial code, the finite-difference matrix is a symbolic matrix:
  * in BOTH derivative modes the source differentiates the temperature, the velocity and the mass profiles - each its own -
    with the mode's own derivative operator, and equals  dfEq/T dchi/dxi [p_w p_pl g_pl^2 dv + p_w E_pl dT/T + 1/2 dm^2 u_w.ubar_pl];
    hence it is linear-homogeneous in the three derivatives and vanishes for a homogeneous background;
  * _dfeq is d/dx _feq for both statistics;
  * operator = Liouville + collision, collision = multiplier * T(z_i)^2 (ROW index) * intertwiner * collision tensor, both in every basis
    combination; flattening is row-major; deltaF is solve(operator, source) of ONE assembly reshaped to (particles, z, pz, pp);
  * setBackground boosts a deep copy: the caller's background is not modified.
Not decided: basis independence of the solution as a function on phase space for all grid sizes (needs the C16 exactness for all sizes),
convergence of finite differences to spectral derivatives.
"""
from __future__ import annotations

import itertools
import numpy as np
import sympy as sp

from wgvc.api import *            # noqa: F401,F403
from wgvc import sym
from wgvc.builtins_model import as_array, norm
from wgvc.interp import enumerate_paths, ClassRef
from .C16_polynomial import EXT as POLY_EXT, make_grid

PROPERTY = "C12"
LEVEL = "proof"
MIN_OBLIGATIONS = 25
M, N, NP = 3, 3, 2
BQ = "boltzmann.BoltzmannSolver"

Tfull = [real(f"T{i}") for i in range(M + 1)]
vfull = [real(f"v{i}") for i in range(M + 1)]
m2full = [[real(f"msq{a}_{i}") for i in range(M + 1)] for a in range(NP)]
vW = real("velocityWall")
xi = [real(f"xi{i}") for i in range(M - 1)]
pz = [real(f"pz{j}") for j in range(N - 1)]
pp = [real(f"pp{k}") for k in range(N - 1)]
dxidchi = [real(f"dxidchi{i}") for i in range(M - 1)]
dpzdrz = [real(f"dpzdrz{j}") for j in range(N - 1)]
Ccoll = np.empty((NP, N - 1, N - 1, NP, N - 1, N - 1), dtype=object)
for idx in np.ndindex(Ccoll.shape):
    Ccoll[idx] = real("C_" + "".join(map(str, idx)))
mult = real("collisionMultiplier")
Dfd = [[real(f"Dfd_{i}{j}") for j in range(M + 1)] for i in range(M + 1)]
Dfd_rz = [[real(f"Dfdrz_{i}{j}") for j in range(N + 1)] for i in range(N + 1)]
STAT = ("Fermion", "Boson")


def findiff_stub(it, args, kwargs):
    # first operator built by the code: position (chi); second: rho_z
    k_ = it.__dict__.get("_findiff_calls", 0)
    it.__dict__["_findiff_calls"] = k_ + 1
    mat = as_array(Dfd if k_ == 0 else Dfd_rz)
    op = SymObj(None, None, label="FinDiff", attrs={})
    it.registry = dict(it.registry)
    it.registry["None.matrix"] = lambda it2, so, a, k: mat
    return op


def make_solver(it, derivatives, basisM, basisN):
    grid = make_grid(it, M, N)
    it.registry = dict(it.registry)
    it.registry["Grid.getCoordinates"] = lambda it2, so, a, k: (as_array(xi), as_array(pz), as_array(pp))
    it.registry["Grid.getCompactificationDerivatives"] = lambda it2, so, a, k: (as_array(dxidchi), as_array(dpzdrz), Opaque("dppdrp"))
    it.registry["Particle.msqVacuum"] = lambda it2, so, a, k: as_array(m2full[so.attrs["__index__"]])
    parts = [SymObj("Particle", "particle", label=f"particle{i}", attrs={"__index__": i, "statistics": STAT[i]}) for i in range(NP)]
    bg = SymObj("BoltzmannBackground", "containers", label="background",
                attrs={"temperatureProfile": as_array(Tfull), "velocityProfile": as_array(vfull), "velocityWall": vW,
                       "fieldProfiles": Opaque("fieldProfiles"), "velocityMid": real("velocityMid")})
    cpoly = SymObj("Polynomial", "polynomial", label="collisionPolynomial", attrs={"coefficients": Ccoll})
    ca = SymObj("CollisionArray", "collisionArray", label="collisionArray", attrs={"polynomialData": cpoly})
    bs = SymObj("BoltzmannSolver", "boltzmann", label="solver")
    bs.attrs.update(grid=grid, offEqParticles=parts, background=bg, collisionArray=ca, basisM=basisM, basisN=basisN,
                    derivatives=derivatives, collisionMultiplier=mult)
    return bs, grid


def spectral_matrices(it, grid, basisM, basisN):
    """the derivative / intertwiner matrices of the real Polynomial code, and the spectral derivative of each profile"""
    def poly(c, basis="Cardinal", direction="z", ep=True):
        return it.instantiate(ClassRef("polynomial", "Polynomial"), [as_array(c), grid, basis, direction, ep], {})
    tp = poly(Tfull)
    out = {"Tchi": as_array(it.call_method(tp, "matrix", [basisM, "z"], {})),
           "Trz": as_array(it.call_method(tp, "matrix", [basisN, "pz"], {})),
           "Trp": as_array(it.call_method(tp, "matrix", [basisN, "pp"], {})),
           "Dchi": as_array(it.call_method(tp, "derivMatrix", [basisM, "z"], {}))[1:-1],
           "Drz": as_array(it.call_method(tp, "derivMatrix", [basisN, "pz"], {}))[1:-1]}
    d = lambda c: as_array(it.call_method(poly(c), "derivative", [0], {}).attrs["coefficients"])     # noqa: E731
    out["dT"], out["dv"] = d(Tfull), d(vfull)
    out["dm2"] = [d(m2full[a]) for a in range(NP)]
    return out


def fd_matrices():
    D = as_array(Dfd)
    app = lambda c: as_array([sum(Dfd[i][j] * c[j] for j in range(M + 1)) for i in range(M + 1)])      # noqa: E731
    return {"Tchi": np.array(sp.eye(M - 1).tolist(), dtype=object), "Trz": np.array(sp.eye(N - 1).tolist(), dtype=object),
            "Trp": np.array(sp.eye(N - 1).tolist(), dtype=object), "Dchi": D[1:-1, 1:-1], "Drz": as_array(Dfd_rz)[1:-1, 1:-1],
            "dT": app(Tfull), "dv": app(vfull), "dm2": [app(m2full[a]) for a in range(NP)]}


def feq_spec(x, s):
    return 1 / (sp.exp(x) - s)


def spec_source(mats, a, i, j, k):
    """dfEq/T dchi/dxi [p_w p_pl g_pl^2 dv + p_w E_pl dT/T + 1/2 dm^2 u_w.ubar_pl] at (particle a, z_i, pz_j, pp_k)"""
    T, v = Tfull[i + 1], vfull[i + 1]
    m2 = m2full[a][i + 1]
    E = sp.sqrt(m2 + pz[j]**2 + pp[k]**2)
    gw = 1 / sp.sqrt(1 - vW**2)
    gp = 1 / sp.sqrt(1 - v**2)
    pw = gw * (pz[j] - vW * E)
    Epl = gp * (E - v * pz[j])
    ppl = gp * (pz[j] - v * E)
    uu = gw * gp * (vW - v)
    s = -1 if STAT[a] == "Fermion" else 1
    x = Epl / T
    dfeq = sp.diff(feq_spec(real("xx"), s), real("xx")).subs(real("xx"), x)
    return dfeq / T / dxidchi[i] * (pw * ppl * gp**2 * mats["dv"][i + 1] + pw * Epl * mats["dT"][i + 1] / T + mats["dm2"][a][i + 1] * uu / 2), x


def build(chk):
    chk.assume_note("findiff.FinDiff(...).matrix(shape) is an arbitrary (symbolic) matrix D; D applied to a constant profile is assumed to vanish for the homogeneous-background clause in finite-difference mode")
    chk.assume_note("numpy.linalg.solve(A, b) returns x with A x = b (assumed contract); exp is an uninterpreted positive function")
    c_feq(chk)
    for derivatives, basisM, basisN in (("Spectral", "Cardinal", "Chebyshev"), ("Spectral", "Chebyshev", "Cardinal"),
                                       ("Spectral", "Chebyshev", "Chebyshev"), ("Spectral", "Cardinal", "Cardinal"),
                                       ("Finite Difference", "Cardinal", "Cardinal")):
        c_assembly(chk, derivatives, basisM, basisN)
    c_solve(chk)
    c_background(chk)
    c_fd_estimate(chk)
    from .C13_moments import c_getdeltas, c_helpers_do_not_touch_the_deviation
    c_getdeltas(chk)
    c_helpers_do_not_touch_the_deviation(chk)


def c_fd_estimate(chk):
    """EOM.getBoltzmannFiniteDifference (the error estimate that compares the two derivative schemes): it works on a DEEP COPY of the solver
    - the solver that the next pressure evaluation uses keeps its derivative scheme, bases and collision array -, the copy is switched to
    finite differences with both bases Cardinal (collision array brought to the Cardinal basis too) and its getDeltas() is what is returned."""
    fn = "equationOfMotion.EOM.getBoltzmannFiniteDifference"
    for basisN in ("Cardinal", "Chebyshev"):
        def mk(it, basisN=basisN):
            ca = SymObj("CollisionArray", "collisionArray", label="collisionArray", attrs={"basis": basisN})
            bs = SymObj("BoltzmannSolver", "boltzmann", label="solver", attrs={"derivatives": "Spectral", "basisM": "Cardinal", "basisN": basisN, "collisionArray": ca})
            eom = SymObj("EOM", "equationOfMotion", label="eom", attrs={"boltzmannSolver": bs})
            return eom, [], {}, {"bs": bs, "ca": ca, "eom": eom}
        reg = {"CollisionArray.changeBasis": lambda it, so, a, k: it.event(kind="contract-call", name="changeBasis", obj=so, args=list(a)),
               "BoltzmannSolver.getDeltas": lambda it, so, a, k: (it.event(kind="contract-call", name="getDeltas", obj=so, attrs=dict(so.attrs)), Opaque("deltas"))[1]}
        rets = sel(chk.summarize("equationOfMotion", "EOM.getBoltzmannFiniteDifference", mk, registry=reg, record=(basisN == "Cardinal")))
        if not rets:
            chk.undecided.append("getBoltzmannFiniteDifference: no returning path")
        for i, p in enumerate(rets):
            bs, ca = p.state["bs"], p.state["ca"]
            gd = [e for e in p.events if e.get("name") == "getDeltas"]
            cb = [e for e in p.events if e.get("name") == "changeBasis"]
            stores = [e for e in p.events if e.get("kind") == "store" and e.get("obj") in (bs.label, ca.label, "eom")]
            ok_copy = (len(gd) == 1 and gd[0]["obj"] is not bs and gd[0]["attrs"].get("derivatives") == "Finite Difference"
                       and gd[0]["attrs"].get("basisM") == "Cardinal" and gd[0]["attrs"].get("basisN") == "Cardinal"
                       and len(cb) == 1 and cb[0]["obj"] is not ca and cb[0]["obj"] is gd[0]["attrs"].get("collisionArray") and list(cb[0]["args"]) == ["Cardinal"])
            chk.vc(f"getBoltzmannFiniteDifference.N-{basisN}.estimate-from-a-finite-difference-copy.{i}", p.pc, sym.to_sym(bool(ok_copy)), func=fn)
            untouched = (not stores and bs.attrs["derivatives"] == "Spectral" and bs.attrs["basisN"] == basisN and bs.attrs["collisionArray"] is ca)
            chk.vc(f"getBoltzmannFiniteDifference.N-{basisN}.solver-in-use-untouched.{i}", p.pc, sym.to_sym(bool(untouched)), func=fn, kind="frame")
            chk.vc(f"getBoltzmannFiniteDifference.N-{basisN}.returns-the-copy's-moments.{i}", p.pc, sym.to_sym(isinstance(p.value, Opaque) and p.value.label == "deltas"), func=fn)


def c_feq(chk):
    x = real("x")
    for s in (1, -1):
        vals = {}
        for nm in ("_feq", "_dfeq"):
            def mk(it, s=s):
                return None, [x, s], {}, {}
            paths = sel(chk.summarize("boltzmann", f"BoltzmannSolver.{nm}", mk))
            if len(paths) != 1:
                chk.undecided.append(f"{nm}: {len(paths)} paths")
                return
            vals[nm] = paths[0].value
        big = 1024 * sp.log(2)
        f, df = sym.to_sym(vals["_feq"]), sym.to_sym(vals["_dfeq"])
        tag = "boson" if s == 1 else "fermion"
        # below the overflow guard: the textbook distribution and its derivative
        f_in = f.subs(x, real("x")) if not isinstance(f, sp.Piecewise) else [e for e, c in f.args if c is sp.true or c == True][0]      # noqa: E712
        df_in = df if not isinstance(df, sp.Piecewise) else [e for e, c in df.args if c is sp.true or c == True][0]                      # noqa: E712
        chk.vc(f"_feq.{tag}.is-equilibrium-distribution", [], Eq(f_in, feq_spec(x, s)), func=f"{BQ}._feq")
        chk.vc(f"_dfeq.{tag}.is-derivative-of-_feq", [Ne(sp.exp(x) - s, 0)], Eq(df_in, deriv(f_in, x)), func=f"{BQ}._dfeq", kind="lemma")
        chk.canary(f"_dfeq.{tag}", [Ne(sp.exp(x) - s, 0)], Eq(df_in, -deriv(f_in, x)), func=f"{BQ}._dfeq")


def c_assembly(chk, derivatives, basisM, basisN):
    tag = f"{derivatives.replace(' ', '')}.{basisM}-{basisN}"
    fn = f"{BQ}.buildLinearEquations"
    chk.under_contract("boltzmann", "BoltzmannSolver.buildLinearEquations")
    ext = dict(POLY_EXT)
    ext["findiff.FinDiff"] = findiff_stub

    def body(it):
        bs, grid = make_solver(it, derivatives, basisM, basisN)
        mats = spectral_matrices(it, grid, basisM, basisN) if derivatives == "Spectral" else fd_matrices()
        res = it.call_method(bs, "buildLinearEquations", [], {})
        return (res, mats), {}
    paths = [p for p in enumerate_paths(body, externals=ext) if p.outcome == "return"]
    chk.path_count += len(paths)
    if len(paths) != 1:
        allp = enumerate_paths(body, externals=ext)
        chk.undecided.append(f"buildLinearEquations[{tag}]: {len(paths)} returning paths ({[(p.exc, p.exc.xargs) for p in allp if p.exc][:1]})")
        return
    (operator, source, liouville, collision), mats = paths[0].value
    operator, source, liouville, collision = (as_array(x) for x in (operator, source, liouville, collision))
    size = NP * (M - 1) * (N - 1) * (N - 1)
    shape8 = (NP, M - 1, N - 1, N - 1) * 2
    ok = operator.shape == (size, size) and source.shape == (size,) and liouville.shape == shape8 and collision.shape == shape8
    chk.vc(f"{tag}.shapes", [], sym.to_sym(bool(ok)), func=fn)
    if not ok:
        return
    pre = [Gt(vW, -1), Lt(vW, 1)] + [And(Gt(v, -1), Lt(v, 1)) for v in vfull] + [Gt(t, 0) for t in Tfull]

    def flat(a, i, j, k):
        return ((a * (M - 1) + i) * (N - 1) + j) * (N - 1) + k
    # source
    goals = []
    for a, i, j, k in itertools.product(range(NP), range(M - 1), range(N - 1), range(N - 1)):
        spec, x = spec_source(mats, a, i, j, k)
        got = source[flat(a, i, j, k)]
        if isinstance(got, sp.Piecewise):       # overflow guard of _dfeq: below the guard
            got = [e for e, c in got.args if c is sp.true or c == True][0]      # noqa: E712
        goals.append(Eq(got, spec))
    # the overflow guards appear inside larger expressions: substitute the in-range branch
    goals = [g.replace(lambda e: isinstance(e, sp.Piecewise), lambda e: [ee for ee, c in e.args if c is sp.true or c == True][0]) for g in goals]      # noqa: E712
    for n_, g in enumerate(goals):
        chk.vc(f"{tag}.source.entry{n_}", pre, g, func=fn)
    chk.canary(f"{tag}.source", pre, Eq(goals[0].lhs, goals[0].rhs + 1), func=fn)
    # operator = liouville + collision (row-major flattening of both index groups)
    ok_sum = all(sp.expand(operator[flat(*r), flat(*c)] - liouville[r + c] - collision[r + c]) == 0
                 for r in itertools.product(range(NP), range(M - 1), range(N - 1), range(N - 1))
                 for c in itertools.product(range(NP), range(M - 1), range(N - 1), range(N - 1)))
    chk.vc(f"{tag}.operator-is-liouville-plus-collision", [], sym.to_sym(bool(ok_sum)), func=fn)
    # collision term: multiplier * T(z_i)^2 * intertwiner_chi[i, l] * C[a, j, k, b, m, n]
    cg, lg = [], []
    for (a, i, j, k), (b, l, m_, n_) in itertools.product(itertools.product(range(NP), range(M - 1), range(N - 1), range(N - 1)), repeat=2):
        cg.append(Eq(collision[a, i, j, k, b, l, m_, n_], mult * Tfull[i + 1]**2 * mats["Tchi"][i, l] * Ccoll[a, j, k, b, m_, n_]))
        E = sp.sqrt(m2full[a][i + 1] + pz[j]**2 + pp[k]**2)
        gw = 1 / sp.sqrt(1 - vW**2)
        pw = gw * (pz[j] - vW * E)
        delta = 1 if a == b else 0
        lg.append(Eq(liouville[a, i, j, k, b, l, m_, n_],
                     delta * (pw / dxidchi[i] * mats["Dchi"][i, l] * mats["Trz"][j, m_] * mats["Trp"][k, n_]
                              - gw / 2 / dxidchi[i] / dpzdrz[j] * mats["dm2"][a][i + 1] * mats["Tchi"][i, l] * mats["Drz"][j, m_] * mats["Trp"][k, n_])))
    chk.vc(f"{tag}.collision-term", pre, And(*cg), func=fn)
    chk.vc(f"{tag}.liouville-term", pre, And(*lg), func=fn)
    chk.canary(f"{tag}.collision-term", pre, Eq(collision[0, 0, 0, 0, 0, 1, 0, 0], mult * Tfull[2]**2 * mats["Tchi"][0, 1] * Ccoll[0, 0, 0, 0, 0, 0] + 1), func=fn)
    # homogeneous background: constant T, v, masses  =>  source vanishes identically (spectral derivative of a constant is zero)
    if derivatives == "Spectral":
        const = {t: real("Tc") for t in Tfull}
        const.update({v: real("vc") for v in vfull})
        for a in range(NP):
            const.update({m_: real(f"mc{a}") for m_ in m2full[a]})
        zero = all(sp.simplify(subs(g.lhs, const)) == 0 for g in goals)
        chk.vc(f"{tag}.homogeneous-background-has-no-source", [], sym.to_sym(bool(zero)), func=fn)


def c_solve(chk):
    fn = f"{BQ}.solveBoltzmannEquations"
    size = NP * (M - 1) * (N - 1) * (N - 1)
    sol = [real(f"x{q}") for q in range(size)]
    calls = []

    def mk(it):
        bs = SymObj("BoltzmannSolver", "boltzmann", label="solver",
                    attrs={"offEqParticles": [0] * NP, "grid": SymObj("Grid", "grid", label="grid", attrs={"M": M, "N": N})})
        return bs, [], {}, {}

    def build_eq(it, so, a, k):
        it.event(kind="contract-call", name="buildLinearEquations")
        return (Opaque("operator"), Opaque("source"), Opaque("liouville"), Opaque("collision"))

    def solve(it, a, k):
        it.event(kind="contract-call", name="solve", args=list(a))
        return as_array(sol)
    paths = sel(chk.summarize("boltzmann", "BoltzmannSolver.solveBoltzmannEquations", mk,
                              registry={"BoltzmannSolver.buildLinearEquations": build_eq}, externals={"numpy.linalg.solve": solve}))
    if len(paths) != 1:
        chk.undecided.append("solveBoltzmannEquations: expected one path")
        return
    p = paths[0]
    b = [e for e in p.events if e.get("name") == "buildLinearEquations"]
    s_ = [e for e in p.events if e.get("name") == "solve"]
    good = (len(b) == 1 and len(s_) == 1 and isinstance(s_[0]["args"][0], Opaque) and s_[0]["args"][0].label == "operator"
            and s_[0]["args"][1].label == "source")
    chk.vc("solveBoltzmannEquations.solves-one-assembled-system", p.pc, sym.to_sym(bool(good)), func=fn)
    out = as_array(p.value)
    okshape = out.shape == (NP, M - 1, N - 1, N - 1)
    chk.vc("solveBoltzmannEquations.row-major-reshape", p.pc,
           sym.to_sym(bool(okshape and all(out[a, i, j, k] is sol[((a * (M - 1) + i) * (N - 1) + j) * (N - 1) + k]
                                           for a in range(NP) for i in range(M - 1) for j in range(N - 1) for k in range(N - 1)))), func=fn)


def c_background(chk):
    fn = f"{BQ}.setBackground"
    vm = real("velocityMid")

    def mk(it):
        bg = SymObj("BoltzmannBackground", "containers", label="callers-background",
                    attrs={"velocityProfile": as_array(vfull), "velocityWall": 0, "velocityMid": vm,
                           "temperatureProfile": as_array(Tfull), "fieldProfiles": Opaque("fields"), "polynomialBasis": "Cardinal"})
        bs = SymObj("BoltzmannSolver", "boltzmann", label="solver", attrs={"background": None})
        return bs, [bg], {}, {"bs": bs, "bg": bg}
    for i, p in enumerate(sel(chk.summarize("boltzmann", "BoltzmannSolver.setBackground", mk))):
        bs, bg = p.state["bs"], p.state["bg"]
        mine = bs.attrs["background"]
        untouched = (bg.attrs["velocityWall"] == 0 and all(a is b for a, b in zip(as_array(bg.attrs["velocityProfile"]).reshape(-1), vfull))
                     and not bg.writes)
        chk.vc(f"setBackground.callers-background-untouched.{i}", p.pc, sym.to_sym(bool(untouched and mine is not bg)), func=fn, kind="frame")
        vprof = as_array(mine.attrs["velocityProfile"]).reshape(-1)
        chk.vc(f"setBackground.boosted-to-plasma-frame.{i}", p.pc + [Gt(vm, -1), Lt(vm, 1)],
               And(*[Eq(a * (1 - v * vm), v - vm) for a, v in zip(vprof, vfull)], Eq(mine.attrs["velocityWall"], -vm)), func=fn)
