"""C03 - the matched flow reaches the nucleation temperature ahead of the wall.

Decided clauses (formulas, for every EOS):
  * shockDE returns d xi/dv and dT/dv of the self-similar fluid equations (both waves);
  * the shock-front event is mu(xi,v) xi = cs^2_high(T); the residual whose root is returned as Tn is continuity of
    the energy flux across the front with the plasma ahead at rest; the three-way case split is as stated;
  * the wall-frame/centre-frame conversion of v+ is the Lorentz velocity addition;
  * detonations: T+ == Tn and v+ == vw;
  * efficiency factor: integrand xi^2 v^2 gamma^2 w of the same ODE right-hand side, prefactor 4/(vw^3 w(Tn) alpha_n),
    rarefaction part with the low-phase enthalpy and a minus sign;
  * template model: the same equations with constant sound speed, and the front condition used in the shooting.
Not decided: accuracy of solve_ivp / simpson, that the terminal event fires.
"""
from __future__ import annotations

import sympy as sp

from wgvc.api import *            # noqa: F401,F403
from wgvc import sym, stubs
from wgvc.smt import quick_sat
from .common import thermo_spec, eos_registry, make_hydro, gammaSq, mu, EOS_ASSUMPTION
from .C02_junction import hydro_registry, HY
from .C06_admissible import make_template

PROPERTY = "C03"
MODULE = "hydrodynamics"
MIN_OBLIGATIONS = 20
H, L = thermo_spec("High"), thermo_spec("Low")
Tn = real("Tnucl")


def build(chk):
    chk.assume_note(EOS_ASSUMPTION)
    c_helpers(chk)
    c_shockDE(chk)
    c_solveHydroShock(chk)
    c_efficiency(chk)
    c_template(chk)
    c_template_efficiency(chk)
    c_template_integrate(chk)
    # callee contracts this property relies on, re-discharged here (a change inside them must fail THIS property too)
    from .C06_admissible import c_deton
    c_deton(chk)


def c_helpers(chk):
    v, xi = real("v"), real("xi")
    (p,) = sel(chk.summarize("helpers", "gammaSq", lambda it: (None, [v], {}, {})))
    chk.vc("gammaSq.definition", p.pc, Eq(p.value * (1 - v * v), 1), func="helpers.gammaSq")
    (q,) = sel(chk.summarize("helpers", "boostVelocity", lambda it: (None, [xi, v], {}, {})))
    chk.vc("boostVelocity.definition", q.pc, Eq(q.value * (1 - xi * v), xi - v), func="helpers.boostVelocity")
    chk.canary("boostVelocity.definition", q.pc, Eq(q.value * (1 - xi * v), xi + v), func="helpers.boostVelocity")


def spec_dxi_dv(xi, v, csq):
    """d xi / d v from  dv/dxi = 2 v/xi / [gamma^2 (1 - v xi) (mu^2/cs^2 - 1)]"""
    return gammaSq(v) * (1 - v * xi) * (mu(xi, v)**2 / csq - 1) * xi / (2 * v)


def spec_dT_dv(xi, v, T):
    return T * gammaSq(v) * mu(xi, v)


def c_shockDE(chk):
    v, xi, T = real("v"), real("xi"), real("T")
    fn = f"{HY}.shockDE"
    for wave, flag, S in (("shock", True, H), ("rarefaction", False, L)):
        def mk(it, flag=flag):
            hy = make_hydro()
            return hy, [v, [xi, T]], {"shockWave": flag}, {"hy": hy}
        paths = chk.summarize(MODULE, "Hydrodynamics.shockDE", mk, registry=eos_registry())
        rets = sel(paths)
        from wgvc.crosscheck import Cross, poly_chain, to_native_poly, to_callable
        cname = "csqHigh" if flag else "csqLow"

        def functions(rnd, cname=cname):
            xs, fam = poly_chain(rnd, [cname], nvars=1, deg=1)
            e = fam[cname] * 0 + sp.Rational(rnd.randint(20, 40), 100) + xs[0] * sp.Rational(rnd.randint(0, 5), 100)
            return ({cname: to_native_poly(xs, e)}, {cname: to_callable(xs, e)})

        def scenario(env, flag=flag):
            th = {"__stub__": "object", "methods": {"csqHighT": "csqHigh", "csqLowT": "csqLow"}}
            return {"module": "WallGo.hydrodynamics", "method": "shockDE", "args": [env["v"], [env["xi"], env["T"]]], "kwargs": {"shockWave": flag},
                    "self": {"__stub__": "real", "module": "WallGo.hydrodynamics", "class": "Hydrodynamics", "attrs": {"thermodynamics": th}}}
        chk.cross(Cross(f"Hydrodynamics.shockDE.{wave}", rets, lambda rnd: {"v": rnd.uniform(0.05, 0.5), "xi": rnd.uniform(0.55, 0.9), "T": rnd.uniform(0.5, 2)},
                        scenario, functions=functions))
        for i, p in enumerate(rets):
            eq1, eq2 = p.value
            chk.vc(f"shockDE.{wave}.dxi-dv.{i}", p.pc, Eq(eq1, spec_dxi_dv(xi, v, S["csq"](T))), func=fn)
            chk.vc(f"shockDE.{wave}.dT-dv.{i}", p.pc, Eq(eq2, spec_dT_dv(xi, v, T)), func=fn)
            chk.vc(f"shockDE.{wave}.positive-temperature.{i}", p.pc, Gt(T, 0), func=fn)
            chk.canary(f"shockDE.{wave}.{i}", p.pc, Eq(eq2, -spec_dT_dv(xi, v, T)), func=fn)
        for p in sel(paths, "raise"):
            chk.vc(f"shockDE.{wave}.raises-only-for-nonpositive-T", p.pc, Le(T, 0), func=fn)
            if p.exc.cls != "WallGoError":
                chk.undecided.append(f"shockDE raises {p.exc.cls}")
        if len(rets) != 1:
            chk.undecided.append(f"shockDE[{wave}]: {len(rets)} returning paths")
    # default is the shock wave
    def mk0(it):
        hy = make_hydro()
        return hy, [v, [xi, T]], {}, {"hy": hy}
    (p0,) = sel(chk.summarize(MODULE, "Hydrodynamics.shockDE", mk0, registry=eos_registry()))
    chk.vc("shockDE.default-is-shock-wave", p0.pc, Eq(p0.value[0], spec_dxi_dv(xi, v, H["csq"](T))), func=fn)


def _shock_loop():
    def call(it, envv, t):
        return it.call(envv.lookup("TiiShock"), [t], {})

    def inv(it, envv):
        return [Eq(envv.lookup("bracket1"), call(it, envv, envv.lookup("Tmin"))),
                Eq(envv.lookup("bracket2"), call(it, envv, envv.lookup("Tmax"))),
                Ge(envv.lookup("Tmin"), real("TMinHydro"))]
    havoc = {k: (lambda it, _k=k: it.fresh_real(_k)) for k in ("Tmin", "Tmax", "bracket1", "bracket2")}
    return {("Hydrodynamics.solveHydroShock", 0): loop_spec(inv, havoc)}


def c_solveHydroShock(chk):
    fn = f"{HY}.solveHydroShock"
    vw, vp, Tp = real("vw"), real("vp"), real("Tp")
    pre = [Gt(vw, 0), Lt(vw, 1), Ge(vp, 0), Lt(vp, 1), Gt(Tp, 0), Gt(Tn, 0), Gt(real("TMinHydro"), 0)]
    reg = eos_registry()

    def mk(it):
        hy = make_hydro()
        for c in pre:
            it.assume(c)
        return hy, [vw, vp, Tp], {}, {"hy": hy}
    paths = chk.summarize(MODULE, "Hydrodynamics.solveHydroShock", mk, registry=reg, externals=stubs.EXTERNALS,
                          loop_specs=_shock_loop())
    rets = sel(paths)
    if not rets:
        chk.undecided.append("solveHydroShock: no returning path")
    vpc = mu(vw, vp)
    cases = set()
    for i, p in enumerate(rets):
        ivp = [e for e in p.events if e.get("kind") == "solve_ivp"]
        rs = [e for e in p.events if e.get("kind") == "root_scalar"]
        if len(rs) != 1 or "root" not in rs[0]:
            chk.undecided.append("solveHydroShock: returning path without exactly one root find")
            continue
        r = rs[0]
        # which of the three cases
        # front condition mu(xi, v) xi > cs^2 evaluated at the wall: xi = vw, v = v+ in the centre frame
        front_at_wall = Gt(mu(vw, vpc) * vw - H["csq"](Tp), 0)
        if ivp:
            cases.add("integrate")
            e = ivp[0]
            xiS, TS, vS = e["y"][0][-1], e["y"][1][-1], e["t"][-1]
            chk.vc(f"solveHydroShock.integration-case.{i}", p.pc, And(Not(front_at_wall), Ne(vw, vp)), func=fn)
            chk.vc(f"solveHydroShock.integration-start.{i}", p.pc,
                   And(Eq(e["span"][0], vpc), Eq(e["y0"][0], vw), Eq(e["y0"][1], Tp), Eq(e["rtol"], real("rtol"))), func=fn)
            # the right-hand side handed to the integrator is shockDE in the shock wave
            gv, (gxi, gT) = e["generic_v"], e["generic_y"]
            if isinstance(e["rhs"], PyExc):
                chk.undecided.append("solveHydroShock: ODE right-hand side raised on a generic state")
            else:
                rhs = list(e["rhs"])
                chk.vc(f"solveHydroShock.ode-rhs.{i}", p.pc + [Gt(gT, 0)],
                       And(Eq(rhs[0], spec_dxi_dv(gxi, gv, H["csq"](gT))), Eq(rhs[1], spec_dT_dv(gxi, gv, gT))), func=fn)
            # the terminal event is the shock-front condition
            evf = e["events"]
            chk.vc(f"solveHydroShock.event-is-terminal.{i}", p.pc, sym.to_sym(evf.attrs.get("terminal") is True), func=fn)
        elif quick_sat(p.pc + [Eq(vw, vp)]) != "unsat" and quick_sat(p.pc + [front_at_wall]) == "unsat":
            cases.add("plasma-at-rest")
            xiS, TS, vS = None, Tp, 0
        else:
            cases.add("front-at-wall")
            xiS, TS, vS = vw, Tp, vpc
            chk.vc(f"solveHydroShock.front-at-wall-case.{i}", p.pc, front_at_wall, func=fn)
        # returned Tn: zero of the energy-flux continuity across the front, plasma at rest ahead
        froot = r["generic_f"]
        tn = r["generic_x"]
        chk.vc(f"solveHydroShock.returns-root.{i}", p.pc, Eq(p.value, r["root"]), func=fn)
        if xiS is None:
            xiS = sp.sqrt(H["csq"](Tp))
            extra = [Ge(H["csq"](Tp), 0)]
            chk.vc(f"solveHydroShock.plasma-at-rest-case.{i}", p.pc, And(Eq(vw, vp), Not(front_at_wall)), func=fn)
        else:
            extra = []
        muS = mu(xiS, vS)
        spec = H["w"](tn) * gammaSq(xiS) * xiS - H["w"](TS) * gammaSq(muS) * muS
        chk.vc(f"solveHydroShock.front-energy-flux.{i}", p.pc + extra, Eq(froot, spec), func=fn + ".<TiiShock>")
        chk.vc(f"solveHydroShock.converged.{i}", p.pc + extra, And(r["converged"], Eq(subs(spec, {tn: r["root"]}), 0)), func=fn)
        chk.vc(f"solveHydroShock.tolerances.{i}", p.pc, And(Eq(r["xtol"], real("atol")), Eq(r["rtol"], real("rtol"))), func=fn)
        chk.canary(f"solveHydroShock.front-energy-flux.{i}", p.pc + extra, Eq(froot, spec + 1), func=fn)
    if cases != {"integrate", "plasma-at-rest", "front-at-wall"}:
        chk.undecided.append(f"solveHydroShock: cases found {sorted(cases)}")
    # the event closure is the front condition mu(xi, v) xi = cs^2(T)
    v, xi, T = real("v"), real("xi"), real("T")

    def env(it):
        hy = make_hydro()
        return {"self": hy}, {"hy": hy}
    (pe,) = sel(chk.summarize_closure(MODULE, "Hydrodynamics.solveHydroShock", "shock", env,
                                      lambda it, cap: ([v, [xi, T]], {}), registry=reg))
    chk.vc("solveHydroShock.event.front-condition", pe.pc, Eq(pe.value, mu(xi, v) * xi - H["csq"](T)),
           func=fn + ".<shock>")
    for p in sel(paths, "raise"):
        if p.exc.cls not in ("WallGoError", "ValueError"):
            chk.undecided.append(f"solveHydroShock raises {p.exc.cls}")
    c_front_at_wall(chk)


def c_front_at_wall(chk):
    """Every place that asks "does the shock front sit at the wall?" uses the front condition with the sound speed of
    the phase in front of the wall: mu(xi, v) xi = cs^2_high(T+) at xi = vw, i.e. v+ vw = cs^2_high(T+)."""
    vw, vpT = real("vw"), real("vpTry")
    F = {k: specfun(f"mdh_{k}") for k in ("vp", "vm", "Tp", "Tm")}
    reg = eos_registry()

    G = {k: specfun(f"lte_{k}") for k in ("vp", "vm", "Tp", "Tm")}

    def deflag(it, so, args, kwargs):
        a = list(args) + [kwargs.get("vp")] if len(args) < 2 else list(args)
        if a[1] is None:
            return tuple(G[k](a[0]) for k in ("vp", "vm", "Tp", "Tm"))
        return tuple(F[k](*a) for k in ("vp", "vm", "Tp", "Tm"))
    reg["Hydrodynamics.matchDeflagOrHyb"] = deflag

    def env(it):
        hy = make_hydro()
        return {"self": hy, "vwTry": vw}, {"hy": hy}
    fn = f"{HY}.findMatching.<solveVpmax>"
    for k, q in enumerate(sel(chk.summarize_closure(MODULE, "Hydrodynamics.findMatching", "solveVpmax", env,
                                                    lambda it, cap: ([vpT], {}), registry=reg))):
        chk.vc(f"findMatching.solveVpmax.front-condition.{k}", q.pc + [Gt(vw, 0)],
               Eq(q.value * vw, vpT * vw - H["csq"](F["Tp"](vw, vpT))), func=fn)
        chk.canary(f"findMatching.solveVpmax.front-condition.{k}", q.pc + [Gt(vw, 0)],
                   Eq(q.value * vw, vpT * vw + H["csq"](F["Tp"](vw, vpT))), func=fn)
    # findvwLTE.<shock>(vw): v+(vw) vw - cs^2_high(T+(vw)) with the entropy matching
    def env2(it):
        hy = make_hydro()
        return {"self": hy}, {"hy": hy}
    fn2 = f"{HY}.findvwLTE.<shock>"
    for k, q in enumerate(sel(chk.summarize_closure(MODULE, "Hydrodynamics.findvwLTE", "shock", env2,
                                                    lambda it, cap: ([vw], {}), registry=reg))):
        chk.vc(f"findvwLTE.shock.front-condition.{k}", q.pc,
               Eq(q.value, G["vp"](vw) * vw - H["csq"](G["Tp"](vw))), func=fn2)


def c_efficiency(chk):
    fn = f"{HY}.efficiencyFactor"
    vw = real("vw")
    reg = eos_registry()
    M = {k: real(f"match.{k}") for k in ("vp", "vm", "Tp", "Tm")}

    def matching(it, so, args, kwargs):
        it.event(kind="contract-call", name="findMatching", args=list(args))
        return (M["vp"], M["vm"], M["Tp"], M["Tm"])
    reg["Hydrodynamics.findMatching"] = matching

    def mk(it):
        hy = make_hydro()
        for c in (Gt(vw, 0), Lt(vw, 1)):
            it.assume(c)
        return hy, [vw], {}, {"hy": hy}
    paths = chk.summarize(MODULE, "Hydrodynamics.efficiencyFactor", mk, registry=reg, externals=stubs.EXTERNALS)
    alN = real("template.alN")
    norm = vw**3 * H["w"](Tn) * alN
    seen = set()
    for i, p in enumerate(sel(paths)):
        sims = [e for e in p.events if e.get("kind") == "simpson"]
        ivps = [e for e in p.events if e.get("kind") == "solve_ivp"]
        if len(sims) != len(ivps):
            chk.undecided.append("efficiencyFactor: simpson/solve_ivp calls do not pair up")
            continue
        total = 0
        for e, s in zip(ivps, sims):
            rare = bool(e["args"]) and e["args"][0] is False
            S = L if rare else H
            kind = "rarefaction" if rare else "shock"
            seen.add(kind)
            t, (xs, Ts) = e["t"], e["y"]
            for j in range(len(t)):
                integrand = xs[j]**2 * t[j]**2 * gammaSq(t[j]) * S["w"](Ts[j])
                chk.vc(f"efficiencyFactor.{kind}.integrand.{i}.{j}", p.pc, And(Eq(s["y"].reshape(-1)[j], integrand),
                                                                               Eq(s["x"].reshape(-1)[j], xs[j])), func=fn)
            start_v = mu(vw, M["vm"] if rare else M["vp"])
            start_T = M["Tm"] if rare else M["Tp"]
            chk.vc(f"efficiencyFactor.{kind}.integration-start.{i}", p.pc,
                   And(Eq(e["span"][0], start_v), Eq(e["y0"][0], vw), Eq(e["y0"][1], start_T)), func=fn)
            if not isinstance(e["rhs"], PyExc):
                gv, (gxi, gT) = e["generic_v"], e["generic_y"]
                rhs = list(e["rhs"])
                chk.vc(f"efficiencyFactor.{kind}.ode-rhs.{i}", p.pc + [Gt(gT, 0)],
                       And(Eq(rhs[0], spec_dxi_dv(gxi, gv, S["csq"](gT))), Eq(rhs[1], spec_dT_dv(gxi, gv, gT))), func=fn)
            total = total + (-4 if rare else 4) * s["result"] / norm
            # when each contribution is taken
            if rare:
                chk.vc(f"efficiencyFactor.rarefaction.only-if-supersonic.{i}", p.pc, Gt(vw**2, L["csq"](M["Tm"])), func=fn)
            else:
                chk.vc(f"efficiencyFactor.shock.only-for-deflagrations.{i}", p.pc, Lt(vw, real("vJ")), func=fn)
        chk.vc(f"efficiencyFactor.sum.{i}", p.pc, Eq(p.value, total), func=fn)
    if seen != {"shock", "rarefaction"}:
        chk.undecided.append(f"efficiencyFactor: wave kinds seen {sorted(seen)}")
    rets = sel(paths)
    if rets:
        chk.canary("efficiencyFactor.sum", rets[-1].pc, Eq(rets[-1].value, 1), func=fn)


def c_template_integrate(chk):
    """Template integratePlasma: what solve_ivp is given - the right-hand side _dxiAndWdv with the wave flag, integration in the plasma velocity
    from v0 down to 1e-10, initial state (xi, w) = (vw, w0), the front event (terminal exactly for shock waves), relative tolerance rtol/10."""
    from wgvc.interp import Closure
    TQ = "hydrodynamicsTemplateModel.HydrodynamicsTemplateModel"
    fn = f"{TQ}.integratePlasma"
    v0, vw, w0 = real("v0"), real("vw"), real("w0")
    DX = specfun("dxiAndWdv0"), specfun("dxiAndWdv1")
    for flag in (True, False):
        reg = {"HydrodynamicsTemplateModel._dxiAndWdv": lambda it, so, a, k: (it.event(kind="contract-call", name="_dxiAndWdv", args=list(a), kwargs=dict(k)),
                                                                              [DX[0](a[0], a[1][0], a[1][1]), DX[1](a[0], a[1][0], a[1][1])])[1]}

        def mk(it, flag=flag):
            it.assume(Gt(v0, 0))
            return make_template(), [v0, vw, w0] + ([] if flag else [False]), {}, {}
        rets = sel(chk.summarize("hydrodynamicsTemplateModel", "HydrodynamicsTemplateModel.integratePlasma", mk, registry=reg, externals=stubs.EXTERNALS,
                                 record=flag))
        tag = "shock" if flag else "rarefaction"
        if len(rets) != 1:
            chk.undecided.append(f"template integratePlasma[{tag}]: {len(rets)} returning paths")
            continue
        p = rets[0]
        ivps = [e for e in p.events if e.get("kind") == "solve_ivp"]
        if len(ivps) != 1:
            chk.undecided.append("template integratePlasma: expected one solve_ivp call")
            continue
        e = ivps[0]
        rhs_calls = [c for c in p.events if c.get("name") == "_dxiAndWdv"]
        flag_passed = bool(rhs_calls) and all((list(c["args"]) + [c["kwargs"].get("shockWave")])[2] is flag for c in rhs_calls)
        ev = e["events"]
        terminal = getattr(ev, "attrs", {}).get("terminal") if isinstance(ev, Closure) else None
        chk.vc(f"template.integratePlasma.{tag}.call.{i if False else 0}", p.pc,
               And(Eq(e["span"][0], v0), Eq(e["span"][1], sym.R(1, 10**10)), Eq(e["y0"][0], vw), Eq(e["y0"][1], w0),
                   Eq(e["rtol"] * 10, real("rtol")), Eq(e["atol"], 0),
                   sym.to_sym(bool(flag_passed and isinstance(ev, Closure) and ev.qualname.endswith("<event>") and terminal is flag))), func=fn)
        chk.vc(f"template.integratePlasma.{tag}.rhs.0", p.pc,
               And(Eq(e["rhs"][0], DX[0](e["generic_v"], e["generic_y"][0], e["generic_y"][1])),
                   Eq(e["rhs"][1], DX[1](e["generic_v"], e["generic_y"][0], e["generic_y"][1]))), func=fn)


def c_template_efficiency(chk):
    from wgvc.builtins_model import as_array
    """Template efficiencyFactor: same decomposition as the general one, with enthalpies in units of wN:
    w+ = (T+/Tn)^mu; w- from energy-flux continuity at the wall; shock-wave part 4/(vw^3 alN) Int xi^2 v^2 gamma^2 w dxi for vw < vJ starting
    from the plasma velocity mu(vw, v+) at xi = vw with w+; rarefaction part with the opposite sign for vw > cb starting from mu(vw, v-), w-."""
    TQ = "hydrodynamicsTemplateModel.HydrodynamicsTemplateModel"
    fn = f"{TQ}.efficiencyFactor"
    vw = real("vw")
    M = {k: real(f"match.{k}") for k in ("vp", "vm", "Tp", "Tm")}
    NP = 3

    def integ(it, so, a, k):
        n = sum(1 for e in it.events if e.get("name") == "integratePlasma")
        t = as_array([it.fresh_real(f"sol{n}.v{j}") for j in range(NP)])
        y = as_array([[it.fresh_real(f"sol{n}.xi{j}") for j in range(NP)], [it.fresh_real(f"sol{n}.w{j}") for j in range(NP)]])
        it.event(kind="contract-call", name="integratePlasma", args=list(a), kwargs=dict(k), t=t, y=y)
        return SymObj(None, None, label=f"sol{n}", attrs={"t": t, "y": y})
    reg = {"HydrodynamicsTemplateModel.findMatching": lambda it, so, a, k: (M["vp"], M["vm"], M["Tp"], M["Tm"]),
           "HydrodynamicsTemplateModel.integratePlasma": integ}
    Tn_, mu_, alN, cb, vJt = real("Tnucl"), real("mu"), real("alN"), real("cb"), real("vJt")

    def mk(it):
        for c in (Gt(vw, 0), Lt(vw, 1), Gt(M["vp"], 0), Lt(M["vp"], 1), Gt(M["vm"], 0), Lt(M["vm"], 1), Gt(M["Tp"], 0), Gt(Tn_, 0), Gt(mu_, 1)):
            it.assume(c)
        return make_template(), [vw], {}, {}
    paths = chk.summarize("hydrodynamicsTemplateModel", "HydrodynamicsTemplateModel.efficiencyFactor", mk, registry=reg, externals=stubs.EXTERNALS)
    wp = (M["Tp"] / Tn_)**mu_
    wm = gammaSq(M["vp"]) * M["vp"] * wp / (gammaSq(M["vm"]) * M["vm"])
    seen = set()
    for i, p in enumerate(sel(paths)):
        sims = [e for e in p.events if e.get("kind") == "simpson"]
        ints = [e for e in p.events if e.get("name") == "integratePlasma"]
        if len(sims) != len(ints):
            chk.undecided.append("template efficiencyFactor: simpson/integratePlasma calls do not pair up")
            continue
        total = 0
        for e, s_ in zip(ints, sims):
            a = list(e["args"]) + [e["kwargs"].get("shockWave")] if len(e["args"]) < 4 else list(e["args"])
            rare = a[3] is False
            kind = "rarefaction" if rare else "shock"
            seen.add(kind)
            chk.vc(f"template.efficiencyFactor.{kind}.integration-start.{i}", p.pc,
                   And(Eq(a[0], mu(vw, M["vm"] if rare else M["vp"])), Eq(a[1], vw), Eq(a[2], wm if rare else wp),
                       sym.to_sym(a[3] is False if rare else a[3] in (None, True))), func=fn)
            t, y = e["t"], e["y"]
            for j in range(NP):
                chk.vc(f"template.efficiencyFactor.{kind}.integrand.{i}.{j}", p.pc,
                       And(Eq(s_["y"].reshape(-1)[j], y[0][j]**2 * t[j]**2 * gammaSq(t[j]) * y[1][j]), Eq(s_["x"].reshape(-1)[j], y[0][j])), func=fn)
            total = total + (-4 if rare else 4) * s_["result"] / (vw**3 * alN)
            if rare:
                chk.vc(f"template.efficiencyFactor.rarefaction.only-if-supersonic.{i}", p.pc, Gt(vw, cb), func=fn)
            else:
                chk.vc(f"template.efficiencyFactor.shock.only-for-deflagrations.{i}", p.pc, Lt(vw, vJt), func=fn)
        chk.vc(f"template.efficiencyFactor.sum.{i}", p.pc, Eq(p.value, total), func=fn)
        if len(ints) < 2:
            chk.vc(f"template.efficiencyFactor.waves-taken.{i}", p.pc,
                   And(*( [Ge(vw, vJt)] if "shock" not in [("rarefaction" if (list(e["args"]) + [e["kwargs"].get("shockWave")])[3] is False else "shock") for e in ints] else []),
                       *( [Le(vw, cb)] if "rarefaction" not in [("rarefaction" if (list(e["args"]) + [e["kwargs"].get("shockWave")])[3] is False else "shock") for e in ints] else [])), func=fn)
    if seen != {"shock", "rarefaction"}:
        chk.undecided.append(f"template efficiencyFactor: wave kinds seen {sorted(seen)}")
    rets = sel(paths)
    if rets:
        chk.canary("template.efficiencyFactor.sum", rets[-1].pc, Eq(rets[-1].value, 1), func=fn)


def c_template(chk):
    fn = "hydrodynamicsTemplateModel.HydrodynamicsTemplateModel"
    v, xi, w = real("v"), real("xi"), real("w")
    for wave, flag, cs in (("shock", True, real("cs2")), ("rarefaction", False, real("cb") ** 2)):
        def mk(it, flag=flag):
            it.assume(Ne(v, 0))
            return make_template(), [v, [xi, w]], {"shockWave": flag}, {}
        paths = sel(chk.summarize("hydrodynamicsTemplateModel", "HydrodynamicsTemplateModel._dxiAndWdv", mk))
        for i, p in enumerate(paths):
            dxi, dw = list(p.value)
            chk.vc(f"template._dxiAndWdv.{wave}.dxi-dv.{i}", p.pc, Eq(dxi, spec_dxi_dv(xi, v, cs)), func=fn + "._dxiAndWdv")
            # d w/d v = w (1 + 1/cs^2) gamma^2 mu  (from dT/dv = T gamma^2 mu and w ~ T^(1+1/cs^2))
            chk.vc(f"template._dxiAndWdv.{wave}.dw-dv.{i}", p.pc, Eq(dw, w * (1 + 1 / cs) * gammaSq(v) * mu(xi, v)),
                   func=fn + "._dxiAndWdv")
            chk.canary(f"template._dxiAndWdv.{wave}.{i}", p.pc, Eq(dw, w * (1 + cs) * gammaSq(v) * mu(xi, v)), func=fn + "._dxiAndWdv")
        if not paths:
            chk.undecided.append("template._dxiAndWdv: no path")
    # the terminal event of the template integration is the same front condition (times v)
    def env(it):
        return {"self": make_template(), "shockWave": True}, {}
    (pe,) = sel(chk.summarize_closure("hydrodynamicsTemplateModel", "HydrodynamicsTemplateModel.integratePlasma", "event",
                                      env, lambda it, cap: ([v, [xi, w]], {}), registry={}))
    chk.vc("template.integratePlasma.event.front-condition", pe.pc, Eq(pe.value, (mu(xi, v) * xi - real("cs2")) * v),
           func=fn + ".integratePlasma.<event>")
