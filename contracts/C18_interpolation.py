"""C18 - interpolated functions honour their evaluation contract (BOUNDED: arrays of at most 2 entries, values unbounded).

The real InterpolatableFunction methods are interpreted with the spline and the underlying function as uninterpreted maps
(S, S', S'', F) on small symbolic inputs: scalar, 1-D of length 2, 2-D of shape (1, 2); scalar- and vector-valued (2 components);
all 16 mode pairs.  Obligations (from the statement):
  * evaluate: result shape = input shape (+ components); entry = S(x) inside the table range, and outside exactly what the mode of
    that side prescribes: ERROR raises ValueError, NONE -> F(x), CONSTANT -> S(range end), FUNCTION -> S(x) (spline extrapolation);
  * derivative: the same rule entry by entry (inside S'(x); outside finite differences of the out-of-range rule);
  * _dropBadPoints: rows with a non-finite value are dropped individually, all others are kept in order;
  * setExtrapolationType / _interpolate: the spline is rebuilt from the same table and extrapolates iff some side is FUNCTION;
    range = min / max of the kept abscissae.
Not decided: spline accuracy, adaptive update thresholds, file round trip, rounding in np.arange.
"""
from __future__ import annotations

import itertools
import numpy as np
import sympy as sp

from wgvc.api import *            # noqa: F401,F403
from wgvc import sym
from wgvc.builtins_model import as_array, elementwise, norm
from wgvc.interp import enumerate_paths, Native

PROPERTY = "C18"
LEVEL = "other"
EXPLANATION = ("Bounded stand-in: the real mask/dispatch code of InterpolatableFunction is interpreted on symbolic inputs of at most 2 entries "
               "(every ordering of the entries relative to the table range is a separate path), scalar- and 2-component-valued functions, all 16 "
               "mode pairs; obligations are discharged by z3 but array length and rank are bounded, so this is not a proof.")
MIN_OBLIGATIONS = 60
MODULE = "interpolatableFunction"
IQ = "interpolatableFunction.InterpolatableFunction"
MODES = ("ERROR", "NONE", "CONSTANT", "FUNCTION")
lo, hi = real("rangeMin"), real("rangeMax")


def S(k, deriv=0):
    return specfun(f"spline{'_d' * deriv}{k}")


def F(k):
    return specfun(f"func{k}")


def vec(fn, x, K):
    """value of a K-component function at x (K == 1: scalar)"""
    if K == 1:
        return fn(0)(x)
    return as_array([fn(k)(x) for k in range(K)])


def apply(fnfam, x, K):
    x = as_array(x) if isinstance(x, (np.ndarray, list)) else x
    if isinstance(x, np.ndarray):
        out = np.empty(x.shape + ((K,) if K > 1 else ()), dtype=object)
        for idx in np.ndindex(x.shape):
            v = vec(fnfam, x[idx], K)
            out[idx] = v
        return out
    return vec(fnfam, x, K)


def make_fn(K, lower, upper, adaptive=False):
    obj = SymObj("InterpolatableFunction", MODULE, label="fn")
    spline = SymObj("CubicSpline", None, label="spline", attrs={"__d__": 0, "extrapolate": None})
    obj.attrs.update(_RETURN_VALUE_COUNT=K, extrapolationTypeLower=EnumVal("EExtrapolationType", lower),
                     extrapolationTypeUpper=EnumVal("EExtrapolationType", upper), _bUseAdaptiveInterpolation=adaptive,
                     _rangeMin=lo, _rangeMax=hi, _interpolatedFunction=spline,
                     _interpolatedDerivatives=[SymObj("CubicSpline", None, label="spline'", attrs={"__d__": 1}),
                                               SymObj("CubicSpline", None, label="spline''", attrs={"__d__": 2})],
                     _directEvaluateCount=0, _directlyEvaluatedAt=[], _evaluationsUntilAdaptiveUpdate=500)
    return obj


def registry(K):
    return {"CubicSpline.__call__": lambda it, so, a, k: apply(lambda c: S(c, so.attrs["__d__"]), a[0], K),
            "InterpolatableFunction._functionImplementation": lambda it, so, a, k: apply(F, a[0], K)}


def expected_entry(x, K, lower, upper, region):
    if region == "inside":
        return vec(S, x, K)
    if region == "outside":
        if lower != upper or lower not in ("NONE", "FUNCTION"):
            raise Undecided(f"entry outside the table on an unknown side with modes {lower}/{upper}")
    mode = lower if region in ("below", "outside") else upper
    return {"NONE": vec(F, x, K), "CONSTANT": vec(S, lo if region == "below" else hi, K), "FUNCTION": vec(S, x, K)}[mode]


def region_of(pc_facts, x):
    """classify an entry from the path condition (decided masks): inside / below / above"""
    from wgvc.smt import quick_sat
    if quick_sat(pc_facts + [Or(Lt(x, lo), Gt(x, hi))]) == "unsat":
        return "inside"
    if quick_sat(pc_facts + [Ge(x, lo)]) == "unsat":
        return "below"
    if quick_sat(pc_facts + [Le(x, hi)]) == "unsat":
        return "above"
    if quick_sat(pc_facts + [Ge(x, lo), Le(x, hi)]) == "unsat":
        return "outside"        # the code did not need to tell the two sides apart (same mode on both)
    return None


def build(chk):
    chk.assume_note("CubicSpline(x, y, extrapolate, axis=0) is an uninterpreted map S (componentwise); its .derivative(k) is S^(k); outside the table it returns "
                    "its extrapolation when extrapolate is true (scipy contract)")
    for fq in ("InterpolatableFunction.evaluate", "InterpolatableFunction._evaluateOutOfBounds", "InterpolatableFunction._findInterpolatablePoints",
               "InterpolatableFunction._evaluateDirectly", "InterpolatableFunction.evaluateInterpolation"):
        chk.under_contract(MODULE, fq)
    chk.bounded.append({"what": "evaluate / derivative dispatch", "bound": "inputs: scalar, (2,), (1,2); components 1 and 2; all 16 mode pairs", "held": True})
    c_evaluate(chk)
    c_drop(chk)
    c_modes(chk)
    c_interpolate(chk)
    c_extend(chk)
    c_file_round_trip(chk)
    c_derivative(chk)


def inputs():
    a, b = real("xa"), real("xb")
    yield "scalar", as_array(a), [((), a)]
    yield "vector", as_array([a, b]), [((0,), a), ((1,), b)]
    yield "matrix", as_array([[a, b]]), [((0, 0), a), ((0, 1), b)]


def c_evaluate(chk):
    fn = f"{IQ}.evaluate"
    pre = [Lt(lo, hi)]
    for K in (1, 2):
        for lower, upper in itertools.product(MODES, MODES):
            for shape_name, xin, entries in inputs():
                if shape_name == "matrix" and (K, lower, upper) not in ((2, "CONSTANT", "FUNCTION"), (1, "NONE", "CONSTANT")):
                    continue      # 2-D inputs: two representative mode pairs (the dispatch does not depend on the rank)
                tag = f"K{K}.{lower}-{upper}.{shape_name}"

                def mk(it, K=K, lower=lower, upper=upper, xin=xin):
                    for c in pre:
                        it.assume(c)
                    o = make_fn(K, lower, upper)
                    return o, [xin.copy()], {}, {"o": o}
                paths = chk.summarize(MODULE, "InterpolatableFunction.evaluate", mk, registry=registry(K), record=False)
                for i, p in enumerate(paths):
                    regs = [region_of(p.pc, x) for _, x in entries]
                    if None in regs:
                        # an entry exactly on a range end belongs to the table (x == lo or x == hi): classify by the closed interval
                        chk.undecided.append(f"evaluate[{tag}] path {i}: entry not classified")
                        continue
                    err_expected = any((r == "below" and lower == "ERROR") or (r == "above" and upper == "ERROR")
                                       or (r == "outside" and lower == "ERROR" and upper == "ERROR") for r in regs)
                    both_error = lower == "ERROR" and upper == "ERROR" and any(r != "inside" for r in regs)
                    if p.outcome == "raise":
                        from wgvc.smt import quick_sat as _qs
                        xs_ = [x for _, x in entries]
                        some_below = _qs(p.pc + [Ge(x, lo) for x in xs_]) == "unsat"
                        some_above = _qs(p.pc + [Le(x, hi) for x in xs_]) == "unsat"
                        err_expected = err_expected or (lower == "ERROR" and some_below) or (upper == "ERROR" and some_above)
                        ok = p.exc.cls == "ValueError" and (err_expected or both_error)
                        chk.vc(f"evaluate.{tag}.raise-only-in-error-mode.{i}", p.pc, sym.to_sym(bool(ok)), func=fn,
                               meta={"exception": p.exc.cls, "regions": regs})
                        continue
                    if err_expected:
                        chk.vc(f"evaluate.{tag}.error-mode-must-raise.{i}", p.pc, sp.false, func=fn)
                        continue
                    res = as_array(p.value)
                    want_shape = xin.shape + ((K,) if K > 1 else ())
                    if res.shape != want_shape:
                        chk.vc(f"evaluate.{tag}.shape.{i}", p.pc, sp.false, func=fn)
                        continue
                    goals = []
                    for (idx, x), r in zip(entries, regs):
                        w = expected_entry(x, K, lower, upper, r)
                        got = res[idx]
                        if K > 1:
                            goals += [Eq(g, ww) for g, ww in zip(as_array(got).reshape(-1), as_array(w).reshape(-1))]
                        else:
                            goals.append(Eq(got, w))
                    chk.vc(f"evaluate.{tag}.entries.{i}", p.pc, And(*goals), func=fn, meta={"regions": regs})
    chk.canary("evaluate", [Lt(lo, hi)], Eq(S(0)(lo), S(0)(hi) + 1), func=fn)


def c_drop(chk):
    fn = f"{IQ}._dropBadPoints"
    xs = [real("t0"), real("t1"), real("t2")]
    for K in (1, 2):
        for bad in itertools.product((False, True), repeat=3):
            if K == 1:
                fx = as_array([sp.nan if b else real(f"y{i}") for i, b in enumerate(bad)])
            else:
                fx = as_array([[real(f"y{i}0"), sp.nan if b else real(f"y{i}1")] for i, b in enumerate(bad)])

            def mk(it, fx=fx):
                return None, [as_array(xs), fx.copy()], {}, {}
            paths = chk.summarize(MODULE, "InterpolatableFunction._dropBadPoints", mk, record=(K == 1 and not any(bad)))
            keep = [i for i, b in enumerate(bad) if not b]
            tag = f"K{K}.bad{''.join('1' if b else '0' for b in bad)}"
            for i, p in enumerate(paths):
                if p.outcome != "return":
                    chk.vc(f"_dropBadPoints.{tag}.no-exception.{i}", p.pc, sp.false, func=fn)
                    continue
                xv, fv = (as_array(v) for v in p.value)
                ok = list(xv.reshape(-1)) == [xs[j] for j in keep] and fv.shape[0] == len(keep) and \
                    all((fv[r] == fx[j]) if K == 1 else all(a is b or a == b for a, b in zip(fv[r], fx[j])) for r, j in enumerate(keep))
                chk.vc(f"_dropBadPoints.{tag}.rows-dropped-individually.{i}", p.pc, sym.to_sym(bool(ok)), func=fn)


def c_modes(chk):
    """setExtrapolationType with an existing table, from any previous pair: same table, spline extrapolates iff a side is FUNCTION."""
    fn = f"{IQ}.setExtrapolationType"
    xs = as_array([real("t0"), real("t1"), real("t2")])
    ys = as_array([real("y0"), real("y1"), real("y2")])
    made = []

    def spline_new(it, a, k):
        o = SymObj("CubicSpline", None, label=it.fresh_name("spline"), attrs={"__d__": 0, "x": a[0], "y": a[1], "extrapolate": k.get("extrapolate"), "axis": k.get("axis")})
        it.event(kind="spline-new", obj=o)
        return o
    reg = {"CubicSpline.derivative": lambda it, so, a, k: SymObj("CubicSpline", None, label=so.label + "'" * a[0], attrs={"__d__": a[0], "of": so})}
    ext = {"scipy.interpolate.CubicSpline": spline_new}
    for prev in (("NONE", "NONE"), ("CONSTANT", "FUNCTION")):
        for lower, upper in itertools.product(MODES, MODES):
            def mk(it, prev=prev, lower=lower, upper=upper):
                for c in (Lt(xs[0], xs[1]), Lt(xs[1], xs[2])):
                    it.assume(c)
                o = make_fn(1, prev[0], prev[1])
                o.attrs.update(_interpolationPoints=xs, _interpolationValues=ys)
                o.attrs["_interpolatedFunction"].attrs["extrapolate"] = "FUNCTION" in prev
                return o, [EnumVal("EExtrapolationType", lower), EnumVal("EExtrapolationType", upper)], {}, {"o": o}
            paths = sel(chk.summarize(MODULE, "InterpolatableFunction.setExtrapolationType", mk, registry=reg, externals=ext,
                                      record=(prev == ("NONE", "NONE") and lower == "ERROR" and upper == "ERROR")))
            tag = f"{prev[0]}-{prev[1]}.to.{lower}-{upper}"
            if not paths:
                chk.undecided.append(f"setExtrapolationType[{tag}]: no returning path")
            for i, p in enumerate(paths):
                o = p.state["o"]
                sp_ = o.attrs["_interpolatedFunction"]
                want = "FUNCTION" in (lower, upper)
                same_table = all(a is b for a, b in zip(as_array(o.attrs["_interpolationPoints"]).reshape(-1), xs)) and \
                    all(a is b for a, b in zip(as_array(o.attrs["_interpolationValues"]).reshape(-1), ys))
                ok = (sp_.attrs.get("extrapolate") is want or sp_.attrs.get("extrapolate") == want) and same_table and \
                    o.attrs["extrapolationTypeLower"].name == lower and o.attrs["extrapolationTypeUpper"].name == upper
                chk.vc(f"setExtrapolationType.{tag}.spline-extrapolates-iff-FUNCTION.{i}", p.pc, sym.to_sym(bool(ok)), func=fn)
                chk.vc(f"setExtrapolationType.{tag}.range.{i}", p.pc, And(Eq(o.attrs["_rangeMin"], xs[0]), Eq(o.attrs["_rangeMax"], xs[2])), func=fn)


def c_interpolate(chk):
    """_interpolate with the real _dropBadPoints inlined, 4-row table, every pattern of non-finite rows that leaves at least two rows:
    the table, the spline AND the reported range are those of the rows that were kept (so a row that is left out is outside the range
    or replaced by its neighbours' interpolation, never evaluated as nan inside the reported range)."""
    fn = f"{IQ}._interpolate"
    xs = [real("t0"), real("t1"), real("t2"), real("t3")]

    def spline_new(it, a, k):
        o = SymObj("CubicSpline", None, label=it.fresh_name("spline"), attrs={"__d__": 0, "x": a[0], "y": a[1], "extrapolate": k.get("extrapolate"), "axis": k.get("axis")})
        return o
    reg = {"CubicSpline.derivative": lambda it, so, a, k: SymObj("CubicSpline", None, label=so.label + "'" * a[0], attrs={"__d__": a[0], "of": so})}
    ext = {"scipy.interpolate.CubicSpline": spline_new}
    first = True
    for K in (1, 2):
        for modes in (("NONE", "NONE"), ("CONSTANT", "FUNCTION")):
            for bad in itertools.product((False, True), repeat=4):
                keep = [i for i, b in enumerate(bad) if not b]
                if len(keep) < 2:
                    continue
                if K == 1:
                    fx = as_array([sp.nan if b else real(f"y{i}") for i, b in enumerate(bad)])
                else:
                    fx = as_array([[real(f"y{i}0"), sp.nan if b else real(f"y{i}1")] for i, b in enumerate(bad)])

                def mk(it, fx=fx, modes=modes, K=K):
                    for a, b in zip(xs, xs[1:]):
                        it.assume(Lt(a, b))
                    o = make_fn(K, modes[0], modes[1])
                    return o, [as_array(xs), fx.copy()], {}, {"o": o}
                paths = chk.summarize(MODULE, "InterpolatableFunction._interpolate", mk, registry=reg, externals=ext, record=first)
                first = False
                tag = f"K{K}.{modes[0]}-{modes[1]}.bad{''.join('1' if b else '0' for b in bad)}"
                rets = sel(paths)
                if not rets or len(rets) != len(paths):
                    chk.undecided.append(f"_interpolate[{tag}]: a path does not return")
                for i, p in enumerate(rets):
                    o = p.state["o"]
                    pts = list(as_array(o.attrs["_interpolationPoints"]).reshape(-1))
                    vals = as_array(o.attrs["_interpolationValues"])
                    spl = o.attrs["_interpolatedFunction"]
                    table_ok = pts == [xs[j] for j in keep] and vals.shape[0] == len(keep) and \
                        list(as_array(spl.attrs["x"]).reshape(-1)) == pts and as_array(spl.attrs["y"]).shape == vals.shape and \
                        all(a is b or a == b for a, b in zip(as_array(spl.attrs["y"]).reshape(-1), vals.reshape(-1))) and \
                        all(a is b or a == b for r, j in enumerate(keep) for a, b in zip(as_array(vals[r]).reshape(-1), as_array(fx[j]).reshape(-1)))
                    want = "FUNCTION" in modes
                    chk.vc(f"_interpolate.{tag}.table-and-spline-from-kept-rows.{i}", p.pc,
                           sym.to_sym(bool(table_ok and (spl.attrs.get("extrapolate") is want or spl.attrs.get("extrapolate") == want))), func=fn)
                    chk.vc(f"_interpolate.{tag}.range-is-that-of-kept-rows.{i}", p.pc,
                           And(Eq(o.attrs["_rangeMin"], xs[keep[0]]), Eq(o.attrs["_rangeMax"], xs[keep[-1]])), func=fn)
                    d = o.attrs["_interpolatedDerivatives"]
                    chk.vc(f"_interpolate.{tag}.derivative-splines.{i}", p.pc,
                           sym.to_sym(bool(len(d) == 2 and all(isinstance(q, SymObj) and q.attrs.get("of") is spl and q.attrs.get("__d__") == k + 1
                                                               for k, q in enumerate(d)))), func=fn)
    chk.bounded.append({"what": "_interpolate", "bound": "4-row tables, 1 and 2 components, every pattern of non-finite rows leaving >= 2 rows, two mode pairs", "held": True})


def c_file_round_trip(chk):
    """writeInterpolationTable / readInterpolationTable (3-row tables, 1 and 2 components).  The file system is a stub: savetxt keeps the
    array it is given, genfromtxt returns it (assumed contract of the pair: text with >= 15 SIGNIFICANT digits reproduces a double to
    1e-15 relative; this holds for the formats %.Ng / %.Ne with N >= 15, not for fixed-decimal %.Nf, which has absolute resolution).
    Obligations: row i of what is written is (x_i, f(x_i) components), single space delimiter, significant-digit format;
    what is read is split the same way and handed to _interpolate unchanged - so write followed by read installs the same table."""
    import re
    fnw, fnr = f"{IQ}.writeInterpolationTable", f"{IQ}.readInterpolationTable"
    t = [real("t0"), real("t1"), real("t2")]
    for K in (1, 2):
        ys = as_array([real(f"y{i}") for i in range(3)]) if K == 1 else as_array([[real(f"y{i}{c}") for c in range(2)] for i in range(3)])
        store = {}

        def savetxt(it, a, k):
            it.event(kind="savetxt", name=a[0], data=as_array(a[1]).copy(), fmt=k.get("fmt", a[2] if len(a) > 2 else "%.18e"), delimiter=k.get("delimiter", " "))
            store[a[0]] = as_array(a[1]).copy()

        def genfromtxt(it, a, k):
            it.event(kind="genfromtxt", name=a[0], delimiter=k.get("delimiter"))
            return store[a[0]].copy()
        ext = {"numpy.savetxt": savetxt, "numpy.genfromtxt": genfromtxt}

        def mkw(it, K=K, ys=ys):
            for a_, b_ in zip(t, t[1:]):
                it.assume(Lt(a_, b_))
            o = make_fn(K, "NONE", "NONE")
            o.attrs.update(_interpolationPoints=as_array(t), _interpolationValues=ys.copy(), _rangeMin=t[0], _rangeMax=t[2])
            return o, ["table.txt"], {}, {"o": o}
        rets = sel(chk.summarize(MODULE, "InterpolatableFunction.writeInterpolationTable", mkw, externals=ext, record=(K == 1)))
        if len(rets) != 1:
            chk.undecided.append(f"writeInterpolationTable[K{K}]: {len(rets)} returning paths")
            continue
        ev = [e for e in rets[0].events if e.get("kind") == "savetxt"]
        ok = len(ev) == 1 and ev[0]["data"].shape == (3, 1 + K)
        chk.vc(f"writeInterpolationTable.K{K}.one-table-of-rows-x-fx", rets[0].pc, sym.to_sym(bool(ok)), func=fnw)
        if not ok:
            continue
        d = ev[0]["data"]
        rows = And(*[Eq(d[i, 0], t[i]) for i in range(3)], *[Eq(d[i, 1 + c], as_array(ys[i]).reshape(-1)[c]) for i in range(3) for c in range(K)])
        chk.vc(f"writeInterpolationTable.K{K}.rows-are-abscissa-then-values", rets[0].pc, rows, func=fnw)
        fmt = ev[0]["fmt"]
        m = re.fullmatch(r"%\.(\d+)([geE])", fmt) if isinstance(fmt, str) else None
        sig = bool(m) and (int(m.group(1)) >= 15 if m.group(2) == "g" else int(m.group(1)) >= 14)
        chk.vc(f"writeInterpolationTable.K{K}.significant-digit-format", rets[0].pc, sym.to_sym(bool(sig and ev[0]["delimiter"] == " ")), func=fnw,
               meta={"fmt": str(fmt)})
        # read back
        seen = {}

        def interp(it, so, a, k):
            seen["x"], seen["fx"] = as_array(a[0]), as_array(a[1])
            so.attrs.update(_rangeMin=real("rmin.read"), _rangeMax=real("rmax.read"))

        def mkr(it, K=K):
            o = make_fn(K, "NONE", "NONE")
            return o, ["table.txt"], {}, {"o": o}
        regr = {"InterpolatableFunction._interpolate": interp, "InterpolatableFunction._validateInterpolationTable": lambda it, so, a, k: True}
        rr = sel(chk.summarize(MODULE, "InterpolatableFunction.readInterpolationTable", mkr, registry=regr, externals=ext, record=(K == 1)))
        if len(rr) != 1 or "x" not in seen:
            chk.undecided.append(f"readInterpolationTable[K{K}]: {len(rr)} returning paths / table not installed")
            continue
        x, fx = seen["x"], seen["fx"]
        same = x.shape == (3,) and fx.shape == ys.shape
        goal = And(*[Eq(a_, b_) for a_, b_ in zip(x.reshape(-1), t)], *[Eq(a_, b_) for a_, b_ in zip(fx.reshape(-1), ys.reshape(-1))]) if same else sp.false
        chk.vc(f"readInterpolationTable.K{K}.installs-the-table-that-was-written", rr[0].pc, goal, func=fnr)
    chk.bounded.append({"what": "file round trip", "bound": "3-row tables, 1 and 2 components; file system stubbed (text with >= 15 significant digits assumed to reproduce the numbers)", "held": True})


def c_extend(chk):
    """extendInterpolationTable on an existing 3-row table [t0<t1<t2] with values y0..y2, every combination of {lower end moved, not moved} x
    {upper end moved, not moved} x point counts in {0, 2}: the table handed to the interpolation is
        new lower points (the function evaluated THERE) ++ old rows with their OLD values ++ new upper points (the function evaluated THERE),
    abscissae strictly increasing, first = newMin when extended below, last = newMax when extended above; the function is evaluated only at
    the new points; adaptive bookkeeping is reset when adaptive interpolation is on.  (1 and 2 components.)"""
    fn = f"{IQ}.extendInterpolationTable"
    t = [real("t0"), real("t1"), real("t2")]
    nmin, nmax = real("newMin"), real("newMax")
    for K in (1, 2):
        ys = as_array([real(f"y{i}") for i in range(3)]) if K == 1 else as_array([[real(f"y{i}{c}") for c in range(2)] for i in range(3)])
        for below, above, pmin, pmax in itertools.product((True, False), (True, False), (0, 2), (0, 2)):
            def mk(it, below=below, above=above, pmin=pmin, pmax=pmax, K=K, ys=ys):
                for a, b in zip(t, t[1:]):
                    it.assume(Lt(a, b))
                it.assume(Lt(nmin, t[0]) if below else Ge(nmin, t[0]))
                it.assume(Gt(nmax, t[2]) if above else Le(nmax, t[2]))
                o = make_fn(K, "NONE", "NONE", adaptive=True)
                o.attrs.update(_interpolationPoints=as_array(t), _interpolationValues=ys.copy(), _rangeMin=t[0], _rangeMax=t[2],
                               _directEvaluateCount=7, _directlyEvaluatedAt=[real("old.eval")])
                return o, [nmin, nmax, pmin, pmax], {}, {"o": o}
            calls = []

            def fimpl(it, so, a, k, K=K):
                pts = as_array(a[0])
                it.event(kind="f-eval", pts=pts)
                return apply(F, pts, K) if pts.size else (np.empty((0,), dtype=object) if K == 1 else np.empty((0, K), dtype=object))

            def new_table(it, so, a, k):
                it.event(kind="new-table", x=as_array(a[0]), fx=as_array(a[1]))
            reg = {"InterpolatableFunction._functionImplementation": fimpl, "InterpolatableFunction.newInterpolationTableFromValues": new_table,
                   "InterpolatableFunction.hasInterpolation": lambda it, so, a, k: True}
            tag = f"K{K}.{'below' if below else 'not-below'}.{'above' if above else 'not-above'}.n{pmin}{pmax}"
            paths = chk.summarize(MODULE, "InterpolatableFunction.extendInterpolationTable", mk, registry=reg,
                                  record=(K == 1 and below and above and pmin == 2 and pmax == 2))
            rets = sel(paths)
            if len(rets) != 1 or len(paths) != 1:
                chk.undecided.append(f"extendInterpolationTable[{tag}]: {len(rets)} returning paths of {len(paths)}")
                continue
            p = rets[0]
            nt = [e for e in p.events if e.get("kind") == "new-table"]
            if len(nt) != 1:
                chk.vc(f"extendInterpolationTable.{tag}.one-new-table", p.pc, sp.false, func=fn)
                continue
            x, fx = nt[0]["x"].reshape(-1), nt[0]["fx"]
            nlo = pmin if (below and pmin > 0) else 0
            nhi = pmax if (above and pmax > 0) else 0
            ok_len = len(x) == nlo + 3 + nhi and fx.shape[0] == len(x)
            chk.vc(f"extendInterpolationTable.{tag}.row-count", p.pc, sym.to_sym(bool(ok_len)), func=fn)
            if not ok_len:
                continue
            goals = [Eq(x[nlo + i], t[i]) for i in range(3)]
            goals += [Lt(a, b) for a, b in zip(x, x[1:])]
            if nlo:
                goals.append(Eq(x[0], nmin))
            if nhi:
                goals.append(Eq(x[-1], nmax))
            chk.vc(f"extendInterpolationTable.{tag}.abscissae", p.pc, And(*goals), func=fn)
            # ordinates: old rows keep their values, new rows carry the function at their own abscissa
            vals = []
            for r in range(len(x)):
                row = as_array(fx[r]).reshape(-1)
                if nlo <= r < nlo + 3:
                    want = as_array(ys[r - nlo]).reshape(-1)
                else:
                    want = as_array(vec(F, x[r], K)).reshape(-1)
                vals += [Eq(a, b) for a, b in zip(row, want)] if len(row) == len(want) else [sp.false]
            chk.vc(f"extendInterpolationTable.{tag}.ordinates-belong-to-their-abscissae", p.pc, And(*vals), func=fn)
            evaluated = [q for e in p.events if e.get("kind") == "f-eval" for q in e["pts"].reshape(-1)]
            new_pts = list(x[:nlo]) + list(x[nlo + 3:])
            chk.vc(f"extendInterpolationTable.{tag}.function-evaluated-only-at-new-points", p.pc,
                   sym.to_sym(len(evaluated) == len(new_pts)) if len(evaluated) != len(new_pts) else And(*[Eq(a, b) for a, b in zip(evaluated, new_pts)]), func=fn)
            o = p.state["o"]
            chk.vc(f"extendInterpolationTable.{tag}.adaptive-bookkeeping-reset", p.pc,
                   sym.to_sym(o.attrs["_directEvaluateCount"] == 0 and list(o.attrs["_directlyEvaluatedAt"]) == [] and o.attrs["_bUseAdaptiveInterpolation"] is True), func=fn)
    chk.bounded.append({"what": "extendInterpolationTable", "bound": "3-row table, 0 or 2 new points per side, 1 and 2 components, all 16 combinations of moved ends and counts", "held": True})


def c_derivative(chk):
    fn = f"{IQ}.derivative"
    a, b = real("xa"), real("xb")
    pre = [Lt(lo, hi)]
    for K in (1, 2):
        for lower, upper in (("NONE", "NONE"), ("CONSTANT", "FUNCTION"), ("FUNCTION", "NONE")):
            def fd(it, args, kwargs):
                # contract of helpers.derivative (C19): exact derivative of the function it is given, here recorded symbolically
                f, x = args[0], args[1]
                it.event(kind="fd-call", f=f, x=x, n=kwargs.get("n"), bounds=kwargs.get("bounds"))
                vals = it.call(f, [x], {})
                return elementwise(lambda v: specfun("D")(sym.to_sym(v)) if not isinstance(v, np.ndarray) else v, vals) if False else as_array(
                    [specfun("Dout")(sym.to_sym(t)) for t in as_array(x).reshape(-1)]) if K == 1 else as_array(
                    [[specfun(f"Dout{c}")(sym.to_sym(t)) for c in range(K)] for t in as_array(x).reshape(-1)])

            def mk(it, K=K, lower=lower, upper=upper):
                for c in pre:
                    it.assume(c)
                o = make_fn(K, lower, upper)
                return o, [as_array([a, b])], {"order": 1}, {"o": o}
            reg = registry(K)
            reg["helpers.derivative"] = None
            reg.pop("helpers.derivative")
            ext = {}
            paths = chk.summarize(MODULE, "InterpolatableFunction.derivative", mk, registry=reg, record=(K == 1 and lower == "NONE"),
                                  externals={"WallGo.helpers.derivative": fd})
            tag = f"K{K}.{lower}-{upper}"
            for i, p in enumerate(paths):
                regs = [region_of(p.pc, x) for x in (a, b)]
                if None in regs:
                    continue
                mixed = "inside" in regs and any(r != "inside" for r in regs)
                if p.outcome == "raise":
                    chk.vc(f"derivative.{tag}.no-exception-on-{'mixed' if mixed else 'uniform'}-input.{i}", p.pc, sp.false, func=fn,
                           meta={"exception": p.exc.cls, "regions": regs})
                    continue
                res = as_array(p.value)
                want_shape = (2,) + ((K,) if K > 1 else ())
                good = res.shape == want_shape
                if good:
                    for j, (x, r) in enumerate(zip((a, b), regs)):
                        if r == "inside":
                            w = vec(lambda c: S(c, 1), x, K)
                            got = res[j]
                            good = good and (all(g == ww for g, ww in zip(as_array(got).reshape(-1), as_array(w).reshape(-1))) if K > 1 else got == w)
                        else:
                            fdcalls = [e for e in p.events if e.get("kind") == "fd-call"]
                            # the finite-difference helper must be applied at the out-of-range entries only
                            xs_fd = [t for e in fdcalls for t in as_array(e["x"]).reshape(-1)]
                            good = good and x in xs_fd and all(t in (a, b) and region_of(p.pc, t) != "inside" for t in xs_fd)
                            # ... and what it differentiates there is the evaluation that respects the per-side mode (the same rule as
                            # evaluate() outside the table), not the bare function
                            from wgvc.interp import BoundMethod
                            good = good and all(isinstance(e["f"], BoundMethod) and e["f"].name == "_evaluateOutOfBounds" and e["f"].obj is p.state["o"]
                                                for e in fdcalls)
                            # ... and its stencil stays on the entry's own side of the table (helpers.derivative never evaluates
                            # outside the bounds it is given, C19): _evaluateOutOfBounds leaves interior entries uninitialised (F8)
                            for e in fdcalls:
                                sides = {region_of(p.pc, t) for t in as_array(e["x"]).reshape(-1)}
                                bnd = e.get("bounds")
                                one_sided = len(sides) == 1 and isinstance(bnd, (tuple, list)) and len(bnd) == 2 and \
                                    ((sides == {"below"} and bnd[1] == lo) or (sides == {"above"} and bnd[0] == hi))
                                good = good and bool(one_sided)
                chk.vc(f"derivative.{tag}.elementwise-rule.{i}", p.pc, sym.to_sym(bool(good)), func=fn, meta={"regions": regs})
