"""C04 - the plasma profile inside the wall conserves energy-momentum pointwise.

With w = -T dV/dT (enthalpy outside a minimum), K = 1/2 sum (d phi/dz)^2, V the effective potential:
  * plasmaVelocity returns v with  w gamma^2 v == s1  and |v| < 1;
  * temperatureProfileEqLHS == K - V + w gamma^2 v^2 - s2 for that v;
  * every (T, v) returned by findPlasmaProfilePoint with T > 0 reproduces the two boundary constants:
      w g^2 v + Tout30 == c1 ,  K - V + w g^2 v^2 + Tout33 == c2      (known finding F6 on the no-root branch);
  * findPlasmaProfile: success flag <=> every point returned T > 0 (bounded: 3 grid points);
  * far from the wall (uniform field, no moments) the hydrodynamic values (T+, -v+) and (T-, -v-) solve the point equations;
  * deltaToTmunu (taken by contract in the point equations) is the boosted integral of p^mu p^nu delta f (obligations shared with C13).
"""
from __future__ import annotations

import numpy as np
import sympy as sp

from wgvc.api import *            # noqa: F401,F403
from wgvc import sym, stubs
from wgvc.builtins_model import as_array
from wgvc.smt import quick_sat
from .common import thermo_spec, gammaSq

PROPERTY = "C04"
MODULE = "equationOfMotion"
MIN_OBLIGATIONS = 15
NF = 2
Vf = specfun("Veff")            # effective potential V(phi_1, phi_2, T)
dVdT = specfun("dVeff_dT")      # its temperature derivative at fixed field
msq = [specfun(f"msqVacuum{i}") for i in range(2)]
PHI = [real("phi0"), real("phi1")]
DPHI = [real("dphi0"), real("dphi1")]
T = real("T")
EOMQ = "equationOfMotion.EOM"


def make_eom(nparticles=2):
    veff = SymObj("EffectivePotential", "effectivePotential", label="effectivePotential")
    thermo = SymObj("Thermodynamics", "thermodynamics", label="thermo", attrs={"effectivePotential": veff})
    hydro = SymObj("Hydrodynamics", "hydrodynamics", label="hydro", attrs={"Tnucl": real("Tnucl")}, open_=True)
    parts = []
    for i in range(nparticles):
        pt = SymObj("Particle", "particle", label=f"particle{i}", attrs={"totalDOFs": real(f"dof{i}"), "__index__": i,
                                                                         "name": f"p{i}"})
        parts.append(pt)
    grid = SymObj("Grid3Scales", "grid3Scales", label="grid", attrs={"xiValues": as_array([real("xi0"), real("xi1"), real("xi2")])})
    eom = SymObj("EOM", MODULE, label="eom")
    eom.attrs.update(thermo=thermo, hydrodynamics=hydro, particles=parts, grid=grid, errTol=real("errTol"),
                     successTemperatureProfile=Stale("EOM.successTemperatureProfile"))
    return eom


def eom_registry():
    def evaluate(it, so, args, kwargs):
        f, t = args[0], args[1]
        return Vf(*list(as_array(f).reshape(-1)), t)

    def derivT(it, so, args, kwargs):
        f, t = args[0], args[1]
        return dVdT(*list(as_array(f).reshape(-1)), t)

    def msqv(it, so, args, kwargs):
        return msq[so.attrs["__index__"]](*list(as_array(args[0]).reshape(-1)))
    return {"EffectivePotential.evaluate": evaluate, "EffectivePotential.derivT": derivT, "Particle.msqVacuum": msqv}


ASSUME = ("assumed contract: EffectivePotential.evaluate(fields, T) is V(phi, T); derivT(fields, T) is its temperature derivative at fixed "
          "field (finite differences, C19); Particle.msqVacuum(fields) is a function of the field point")


def w_of(t):
    return -t * dVdT(*PHI, t)


def build(chk):
    chk.assume_note(ASSUME)
    c_velocity(chk)
    c_lhs(chk)
    c_point(chk)
    c_profile(chk)
    c_boundary(chk)
    # the contract of deltaToTmunu that c_point assumes (Tout30, Tout33 are the 30 and 33 components of the out-of-equilibrium
    # stress tensor) is discharged here as well: a change inside it breaks THIS property too (same obligations as C13)
    from .C13_moments import c_tmunu
    c_tmunu(chk)


def c_velocity(chk):
    s1 = real("s1")
    fn = f"{EOMQ}.plasmaVelocity"

    def mk(it):
        it.assume(Ne(s1, 0))
        return make_eom(), [as_array(PHI), T, s1], {}, {}
    (p,) = sel(chk.summarize(MODULE, "EOM.plasmaVelocity", mk, registry=eom_registry()))
    v = p.value
    w = w_of(T)
    chk.vc("plasmaVelocity.energy-flux", p.pc, Eq(w * v, s1 * (1 - v * v)), func=fn)
    chk.vc("plasmaVelocity.subluminal", p.pc + [Gt(w, 0)], And(Gt(v, -1), Lt(v, 1)), func=fn)
    chk.vc("plasmaVelocity.sign", p.pc + [Gt(w, 0)], Gt(v * s1, 0), func=fn)
    chk.canary("plasmaVelocity.energy-flux", p.pc, Eq(w * v, -s1 * (1 - v * v)), func=fn)
    from wgvc.crosscheck import Cross, poly_chain, to_native_poly, to_callable

    def functions(rnd):
        xs, fam = poly_chain(rnd, ["dVeff_dT"], nvars=3, deg=2)
        return ({"dVeff_dT": to_native_poly(xs, fam["dVeff_dT"])}, {"dVeff_dT": to_callable(xs, fam["dVeff_dT"])})

    def scenario(env):
        pot = {"__stub__": "object", "methods": {"derivT": "dVeff_dT"}}
        return {"module": "WallGo.equationOfMotion", "method": "plasmaVelocity", "args": [[env["phi0"], env["phi1"]], env["T"], env["s1"]],
                "self": {"__stub__": "real", "module": "WallGo.equationOfMotion", "class": "EOM",
                         "attrs": {"thermo": {"__stub__": "namespace", "attrs": {"effectivePotential": pot}}}}}
    chk.cross(Cross("EOM.plasmaVelocity", [p], lambda rnd: {"phi0": rnd.uniform(-1, 1), "phi1": rnd.uniform(-1, 1), "T": rnd.uniform(0.5, 2),
                                                            "s1": rnd.choice([-1, 1]) * rnd.uniform(0.1, 2)}, scenario, functions=functions))
    return v


def vel(t, s1):
    w = w_of(t)
    return (-w + sp.sqrt(4 * s1**2 + w**2)) / (2 * s1)


def c_lhs(chk):
    s1, s2 = real("s1"), real("s2")
    fn = f"{EOMQ}.temperatureProfileEqLHS"

    def mk(it):
        it.assume(Ne(s1, 0))
        return make_eom(), [as_array(PHI), as_array(DPHI), T, s1, s2], {}, {}
    paths = sel(chk.summarize(MODULE, "EOM.temperatureProfileEqLHS", mk, registry=eom_registry()))
    if len(paths) != 1:
        chk.undecided.append(f"temperatureProfileEqLHS: {len(paths)} returning paths")
        return
    p = paths[0]
    K = sum(d**2 for d in DPHI) / 2
    v = vel(T, s1)
    w = w_of(T)
    spec = K - Vf(*PHI, T) + w * gammaSq(v) * v**2 - s2
    chk.vc("temperatureProfileEqLHS.is-T33-balance", p.pc + [Gt(w, 0)], Eq(p.value, spec), func=fn)
    chk.canary("temperatureProfileEqLHS.is-T33-balance", p.pc + [Gt(w, 0)], Eq(p.value, spec + 1), func=fn)


LHS = specfun("LHS")


def c_point(chk):
    """findPlasmaProfilePoint with the two helpers under their contracts:
    temperatureProfileEqLHS(fields, dPhidz, T, s1, s2) == LHS(T, s1, s2) (pure), plasmaVelocity(fields, T, s1) == vel."""
    fn = f"{EOMQ}.findPlasmaProfilePoint"
    c1, c2, vmid, Tp, Tm = real("c1"), real("c2"), real("velocityMid"), real("Tplus"), real("Tminus")
    T30, T33 = real("Tout30"), real("Tout33")
    reg = eom_registry()
    reg["EOM.temperatureProfileEqLHS"] = lambda it, so, a, k: LHS(a[2], a[3], a[4])
    reg["EOM.plasmaVelocity"] = lambda it, so, a, k: specfun("vPlasmaF")(a[1], a[2])
    reg["EOM.deltaToTmunu"] = lambda it, so, a, k: (T30, T33)

    def inv(it, envv):
        # the bracket end moves away from the (scaled) minimiser always in the same direction
        return [Eq(envv.lookup("testTemp"), envv.lookup("tempAtMinimum") * envv.lookup("TMultiplier")), Ge(envv.lookup("tempAtMinimum"), 0)]
    havoc = {"tempAtMinimum": lambda it: it.fresh_real("tempAtMinimum"), "testTemp": lambda it: it.fresh_real("testTemp"),
             "i": lambda it: it.fresh_int("i")}
    loops = {("EOM.findPlasmaProfilePoint", 0): loop_spec(inv, havoc)}

    def mk(it):
        for c in (Gt(Tp, 0), Gt(Tm, 0)):
            it.assume(c)
        eom = make_eom()
        return eom, [integer("index"), c1, c2, vmid, as_array(PHI), as_array(DPHI), Opaque("deltas"), Tp, Tm], {}, {"eom": eom}
    paths = chk.summarize(MODULE, "EOM.findPlasmaProfilePoint", mk, registry=reg, externals=stubs.EXTERNALS, loop_specs=loops)
    rets = sel(paths)
    kinds = {"root": 0, "min": 0, "zero": 0}
    s1, s2 = c1 - T30, c2 - T33
    for i, p in enumerate(rets):
        Tr, vr = p.value
        if not isinstance(Tr, sp.Basic) or Tr == 0:
            kinds["zero"] += 1
            continue
        rs = [e for e in p.events if e.get("kind") == "root_scalar"]
        tag = "root" if rs else "no-root-minimum"
        kinds["root" if rs else "min"] += 1
        # the point equations for the returned (T, v):  LHS(T, s1, s2) == 0  and  v == plasmaVelocity(T, s1)
        facts = p.pc + [Gt(Tr, 0)] + ([rs[0]["converged"]] if rs else [])
        chk.vc(f"findPlasmaProfilePoint.{tag}.T33-balance.{i}", facts, Eq(LHS(Tr, s1, s2), 0), func=fn)
        chk.vc(f"findPlasmaProfilePoint.{tag}.velocity-from-T30.{i}", facts, Eq(vr, specfun("vPlasmaF")(Tr, s1)), func=fn)
        if rs:
            e = rs[0]
            chk.vc(f"findPlasmaProfilePoint.root.residual.{i}", p.pc, Eq(e["generic_f"], LHS(e["generic_x"], s1, s2)), func=fn)
            # which of the two roots of the parabola: the one BELOW the minimum exactly for detonations, recognised by T+ = Tn
            # (the wall runs into unperturbed plasma; C02/C06: matchDeton returns T+ = Tn), the one above it otherwise.
            # The bracket runs from the (scaled) minimiser to a test temperature at least 20 % away on that side (loop invariant).
            det = Lt(sp.Abs(real("Tnucl") - Tp), sym.R(1, 10**10))
            chk.vc(f"findPlasmaProfilePoint.root.branch-below-minimum-iff-detonation.{i}", p.pc,
                   And(Implies(det, Le(e["b"], e["a"] * sym.R(8, 10))), Implies(Not(det), Ge(e["b"], e["a"] * sym.R(12, 10)))), func=fn)
            chk.canary(f"findPlasmaProfilePoint.root.T33-balance.{i}", facts, Eq(LHS(Tr, s1, s2), 1), func=fn)
    if kinds["root"] == 0 or kinds["min"] == 0:
        chk.undecided.append(f"findPlasmaProfilePoint: path classes {kinds}")
    for p in sel(paths, "raise"):
        if p.exc.cls not in ("ValueError",):
            chk.undecided.append(f"findPlasmaProfilePoint raises {p.exc.cls}")
    # composition lemma: LHS == 0 and v == plasmaVelocity  =>  both tensor components are reproduced
    v = vel(T, real("s1"))
    w = w_of(T)
    K = sum(d**2 for d in DPHI) / 2
    s1s, s2s = real("s1"), real("s2")
    lhs_expr = K - Vf(*PHI, T) + w * gammaSq(v) * v**2 - s2s
    facts = [Gt(w, 0), Ne(s1s, 0), Eq(lhs_expr, 0), Eq(s1s, c1 - T30), Eq(s2s, c2 - T33)]
    chk.vc("lemma.point-equations-give-conservation.T30", facts, Eq(w * gammaSq(v) * v + T30, c1), func="lemma", kind="lemma")
    chk.vc("lemma.point-equations-give-conservation.T33", facts, Eq(K - Vf(*PHI, T) + w * gammaSq(v) * v**2 + T33, c2), func="lemma", kind="lemma")
    chk.canary("lemma.point-equations-give-conservation", facts, Eq(w * gammaSq(v) * v + T30, -c1), func="lemma")


def c_profile(chk):
    fn = f"{EOMQ}.findPlasmaProfile"
    N = 3
    Ts = [real(f"Tpt{i}") for i in range(N)]
    vs = [real(f"vpt{i}") for i in range(N)]
    reg = eom_registry()

    def point(it, so, a, k):
        idx = a[0]
        it.event(kind="contract-call", name="findPlasmaProfilePoint", args=list(a))
        return (Ts[idx], vs[idx])
    reg["EOM.findPlasmaProfilePoint"] = point

    def getpoint(it, so, a, k):
        return Opaque(f"{so.label}[{a[0]}]")
    reg["Fields.getFieldPoint"] = getpoint

    def mk(it):
        eom = make_eom()
        f = SymObj("Fields", "fields", label="fields")
        d = SymObj("Fields", "fields", label="dPhidz")
        return eom, [real("c1"), real("c2"), real("velocityMid"), f, d, Opaque("deltas"), real("Tplus"), real("Tminus")], {}, {"eom": eom}
    paths = chk.summarize(MODULE, "EOM.findPlasmaProfile", mk, registry=reg)
    chk.bounded.append({"what": "findPlasmaProfile: success flag <=> all points returned T > 0; profile entries", "bound": f"{N} grid points",
                        "held": True})
    for i, p in enumerate(sel(paths)):
        eom = p.state["eom"]
        flag = eom.attrs["successTemperatureProfile"]
        allpos = And(*[Gt(t, 0) for t in Ts])
        chk.vc(f"findPlasmaProfile.success-iff-all-positive.{i}", p.pc,
               And(Implies(sym.to_sym(flag), allpos), Implies(allpos, sym.to_sym(flag))), func=fn)
        prof, vprof = p.value
        for k in range(N):
            chk.vc(f"findPlasmaProfile.point{k}.{i}", p.pc + [Gt(Ts[k], 0)], And(Eq(prof[k], Ts[k]), Eq(vprof[k], vs[k])), func=fn)
        calls = [e for e in p.events if e.get("name") == "findPlasmaProfilePoint"]
        chk.vc(f"findPlasmaProfile.calls.{i}", p.pc, sym.to_sym(len(calls) == N and all(c["args"][0] == k for k, c in enumerate(calls))), func=fn)


def c_boundary(chk):
    """Far from the wall: uniform field at the phase minimum (K = 0), no moments, V = -p(T), w = w(T).  With c1, c2 from the
    hydrodynamic matching (C02), (T+, -v+) solves the point equations in front and, by the junction conditions, (T-, -v-) behind."""
    H, Lo = thermo_spec("High"), thermo_spec("Low")
    vp, vm, Tp, Tm = real("vp"), real("vm"), real("Tp"), real("Tm")
    wH, wL = H["e"](Tp) + H["p"](Tp), Lo["e"](Tm) + Lo["p"](Tm)
    c1 = -wH * gammaSq(vp) * vp
    c2 = H["p"](Tp) + wH * gammaSq(vp) * vp**2
    junction = [Eq(wH * gammaSq(vp) * vp, wL * gammaSq(vm) * vm),
                Eq(wH * gammaSq(vp) * vp**2 + H["p"](Tp), wL * gammaSq(vm) * vm**2 + Lo["p"](Tm))]
    pre = [Gt(vp, 0), Lt(vp, 1), Gt(vm, 0), Lt(vm, 1), Gt(wH, 0), Gt(wL, 0)]
    for side, w, pr, v in (("front", wH, H["p"](Tp), vp), ("behind", wL, Lo["p"](Tm), vm)):
        s1 = c1
        vel_ = (-w + sp.sqrt(4 * s1**2 + w**2)) / (2 * s1)
        lhs = 0 + pr - w / 2 + sp.sqrt(4 * s1**2 + w**2) / 2 - c2          # K = 0, V = -p
        chk.vc(f"boundary.{side}.velocity", pre + junction, Eq(vel_, -v), func="lemma", kind="lemma")
        chk.vc(f"boundary.{side}.temperature-is-root", pre + junction, Eq(lhs, 0), func="lemma", kind="lemma")
    chk.canary("boundary.front", pre + junction, Eq((-wH + sp.sqrt(4 * c1**2 + wH**2)) / (2 * c1), vp), func="lemma")
    chk.assume_note("boundary lemma assumes the envelope theorem: at a phase minimum dV/dT at fixed field equals -dp/dT, so w there is the phase enthalpy")
