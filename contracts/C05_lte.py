"""C05 - the LTE wall velocity conserves entropy flux.

Decided clauses:
  * every matching returned by matchDeflagOrHyb(vw) (v+ from entropy conservation) satisfies
    T+^2 (1 - v-^2) == T-^2 (1 - v+^2), i.e. T+ gamma+ == T- gamma-, and inside the 2x2 residual the same
    relation defines v+^2;
  * findvwLTE: the convergence flag is written before it is read; the runaway sentinel 1 is returned only
    when {the shock bracket fails, the mismatch at the top of the window is positive, the matching did not
    converge}; the static sentinel 0 iff the mismatch at vMin is negative (after the 1-guards); otherwise the
    result is the brentq root of (shock temperature - Tn) in [vMin, vmax], with the solver's tolerances.
Not decided: "one sign over the whole window" (needs monotonicity of the mismatch in vw).
"""
from __future__ import annotations

import sympy as sp

from wgvc.api import *            # noqa: F401,F403
from wgvc import sym, stubs
from wgvc.smt import quick_sat
from .common import thermo_spec, eos_registry, make_hydro, EOS_ASSUMPTION
from .C02_junction import hydro_registry, _mdh_blocks, vpvmF, vpovmF, invMapT, HY

PROPERTY = "C05"
MODULE = "hydrodynamics"
MIN_OBLIGATIONS = 15
H, L = thermo_spec("High"), thermo_spec("Low")
Tn = real("Tnucl")


def build(chk):
    chk.assume_note(EOS_ASSUMPTION)
    c_entropy(chk)
    c_findvwLTE(chk)
    from .common import hydro_frame
    hydro_frame(chk)
    from . import C15_template as T15
    T15.c_findvwLTE(chk)
    T15.c_eqWall(chk)
    T15.c_maxAl(chk)
    c_manager_hydro(chk)


def c_entropy(chk):
    vw = real("vw")
    pre = [Gt(vw, 0), Lt(vw, 1), Gt(Tn, 0), Gt(real("TMaxHydro"), real("TMinHydro")), Gt(real("TMinHydro"), 0)]
    fn = f"{HY}.matchDeflagOrHyb"

    def mk(it):
        hy = make_hydro()
        for c in pre:
            it.assume(c)
        return hy, [vw], {}, {"hy": hy}
    paths = chk.summarize(MODULE, "Hydrodynamics.matchDeflagOrHyb", mk, registry=hydro_registry(),
                          externals=stubs.EXTERNALS, block_specs=_mdh_blocks())
    rets = sel(paths)
    if not rets:
        chk.undecided.append("matchDeflagOrHyb(vw): no returning path")
    for i, p in enumerate(rets):
        vp, vm, Tp, Tm = p.value
        radicand = Tm**2 - Tp**2 * (1 - vm**2)
        facts = p.pc + [Ge(radicand, 0), Gt(Tm, 0), Ge(L["csq"](Tm), 0)]
        chk.vc(f"matchDeflagOrHyb.entropy.relation.{i}", facts, Eq(Tp**2 * (1 - vm**2), Tm**2 * (1 - vp**2)), func=fn)
        chk.vc(f"matchDeflagOrHyb.entropy.vp-nonnegative.{i}", facts, Ge(vp, 0), func=fn)
        chk.canary(f"matchDeflagOrHyb.entropy.relation.{i}", facts, Eq(Tp**2 * (1 - vp**2), Tm**2 * (1 - vm**2)), func=fn)
        chk.reach(f"matchDeflagOrHyb.entropy.{i}", facts, func=fn)
        # the residual given to hybr uses the same relation for v+^2
        ev = [e for e in p.events if e.get("kind") == "root"]
        if len(ev) != 1:
            chk.undecided.append("matchDeflagOrHyb(vw): expected one hybr call")
            continue
        f1 = ev[0]["fun"].reshape(-1)[0]
        x = ev[0]["x"]
        tp, tm = invMapT(x[0]), invMapT(x[1])
        vmsq = sp.Piecewise((L["csq"](tm), Gt(vw**2, L["csq"](tm))), (vw**2, True))
        c = sym.real("cfac")
        vpsq = (tm**2 - tp**2 * (1 - vmsq)) / tm**2
        target = (vpvmF(tp, tm) * vpovmF(tp, tm) - vpsq)
        # f1 == target * c for the positive scale factor c of the code: f1 == 0 <=> target == 0
        chk.vc(f"matchDeflagOrHyb.entropy.residual.{i}", p.pc + [Gt(tp, 0), Gt(tm, 0), Ne(real("Tp0"), 0), Ne(real("Tm0"), 0)],
               And(Implies(Eq(f1, 0), Eq(target, 0)), Implies(Eq(target, 0), Eq(f1, 0))), func=fn + ".<matching>")


def c_findvwLTE(chk):
    fn = f"{HY}.findvwLTE"
    reg = eos_registry()
    F = {k: specfun(f"lte_{k}") for k in ("vp", "vm", "Tp", "Tm")}
    Tsh = specfun("TshockF")
    calls = []

    def deflag(it, so, args, kwargs):
        # contract of matchDeflagOrHyb(vw): pure in vw for the returned tuple; writes self.success (fresh flag)
        vwa = args[0]
        if len(args) > 1 or "vp" in kwargs:
            raise Undecided("findvwLTE passes vp to matchDeflagOrHyb")
        flag = it.fresh_bool("success")
        it.setattr(so, "success", flag)
        it.event(kind="contract-call", name="matchDeflagOrHyb", args=[vwa], flag=flag)
        return tuple(F[k](vwa) for k in ("vp", "vm", "Tp", "Tm"))

    def shock(it, so, args, kwargs):
        return Tsh(*args)
    reg.update({"Hydrodynamics.matchDeflagOrHyb": deflag, "Hydrodynamics.solveHydroShock": shock})
    vJ, vMin = real("vJ"), real("vMin")

    def mk(it):
        hy = make_hydro()
        hy.attrs["success"] = Stale("Hydrodynamics.success")
        return hy, [], {}, {"hy": hy}
    paths = chk.summarize(MODULE, "Hydrodynamics.findvwLTE", mk, registry=reg, externals=stubs.EXTERNALS)

    def diff(v):
        return Tsh(v, F["vp"](v), F["Tp"](v)) - Tn
    kinds = {"one": 0, "zero": 0, "root": 0}
    for i, p in enumerate(sel(paths)):
        v = p.value
        # the root finds made by findvwLTE itself (a root find inside a callee, e.g. in the template model, is that callee's business)
        rs = [e for e in p.events if e.get("kind") == "root_scalar" and e.get("site", "").endswith("findvwLTE")]
        final = [e for e in rs if e.get("fa") is not None and e["fa"] == diff(e["a"])]
        shock_rs = [e for e in rs if e not in final]
        # vmax as the code computes it on this path
        vmax = vJ - sym.R(1, 10**10)
        for e in shock_rs:
            if "root" in e:
                vmax = e["root"] - sym.R(1, 10**6)
        if isinstance(v, int) and v == 1:
            kinds["one"] += 1
            reasons = []
            for e in shock_rs:
                if e.get("raised"):
                    reasons.append(sp.true)
            # last success flag written before the read
            flags = [e["flag"] for e in p.events if e.get("name") == "matchDeflagOrHyb"]
            if not reasons:
                # the sentinel needs its evidence: the mismatch still has the runaway sign at the top of the window (or the matching
                # there failed).  A path that returns 1 without having looked gets the same obligation; nothing on it implies it.
                reasons.append(Or(Gt(diff(vmax), 0), Not(flags[-1])) if flags else Gt(diff(vmax), 0))
            chk.vc(f"findvwLTE.runaway-sentinel-reason.{i}", p.pc, Or(*reasons), func=fn)
            continue
        if isinstance(v, int) and v == 0:
            kinds["zero"] += 1
            chk.vc(f"findvwLTE.static-sentinel-reason.{i}", p.pc,
                   And(Lt(diff(vMin), 0), Le(diff(vmax), 0)), func=fn)
            continue
        kinds["root"] += 1
        if len(final) != 1 or "root" not in final[0]:
            chk.undecided.append("findvwLTE: returning path without the final root find")
            continue
        e = final[0]
        chk.vc(f"findvwLTE.result-is-root.{i}", p.pc, And(Eq(v, e["root"]), Eq(e["a"], vMin), Eq(e["b"], vmax)), func=fn)
        chk.vc(f"findvwLTE.bracket-signs.{i}", p.pc, And(Ge(e["fa"], 0), Le(e["fb"], 0)), func=fn)
        chk.vc(f"findvwLTE.root-reaches-Tn.{i}", p.pc + [e["converged"]], Eq(Tsh(v, F["vp"](v), F["Tp"](v)), Tn), func=fn)
        chk.vc(f"findvwLTE.tolerances.{i}", p.pc, And(Eq(e["xtol"], real("atol")), Eq(e["rtol"], real("rtol"))), func=fn)
        chk.vc(f"findvwLTE.root-in-window.{i}", p.pc + [Le(vMin, vmax)], And(Ge(v, vMin), Le(v, vmax)), func=fn)
    if min(kinds.values()) == 0:
        chk.undecided.append(f"findvwLTE: path classes missing {kinds}")
    # the two closures: mismatch of the shock temperature, and the front-at-wall test that caps the window
    # (v+ vw = cs^2 of the phase in front of the wall at T+)
    vwx = real("vwx")

    def env(it):
        hy = make_hydro()
        return {"self": hy}, {"hy": hy}
    for nm, want in (("shockTnuclDiff", lambda: Tsh(vwx, F["vp"](vwx), F["Tp"](vwx)) - Tn),
                     ("shock", lambda: F["vp"](vwx) * vwx - H["csq"](F["Tp"](vwx)))):
        for k, q in enumerate(sel(chk.summarize_closure(MODULE, "Hydrodynamics.findvwLTE", nm, env,
                                                        lambda it, cap: ([vwx], {}), registry=reg))):
            chk.vc(f"findvwLTE.{nm}.definition.{k}", q.pc, Eq(q.value, want()), func=fn + f".<{nm}>")
            chk.canary(f"findvwLTE.{nm}.definition.{k}", q.pc, Eq(q.value, want() + 1), func=fn + f".<{nm}>")
    # history independence of the flag: the pre-state flag is a Stale value; reading it would emit the failing
    # frame obligation findvwLTE.no-read-of-stale-state.* (see wgvc.interp.Stale)
    chk.notes.append(f"findvwLTE: {len(paths)} paths explored with a stale pre-state success flag")
    rets = sel(paths)
    if rets:
        chk.canary("findvwLTE.sentinel", rets[0].pc, sp.false, func=fn)


def c_manager_hydro(chk):
    """WallGoManager._initHydrodynamics / wallSpeedLTE: the LTE velocity the manager reports is findvwLTE() of a Hydrodynamics object built
    from the thermodynamics of THIS setup (Hydrodynamics copies Tn, vJ, vMin, the temperature range and its template at construction, so a
    reused object answers for an earlier nucleation temperature): _initHydrodynamics constructs a new object from the argument and the
    configured tmax/tmin/tolerances, stores it, and reads nothing an earlier setup left on the manager."""
    fn = "manager.WallGoManager._initHydrodynamics"
    cfgH = SymObj(None, None, label="configHydrodynamics", attrs={k: real(f"cfg.{k}") for k in ("tmax", "tmin", "relativeTol", "absoluteTol")})
    th = SymObj("Thermodynamics", "thermodynamics", label="thermodynamics.new")

    def mk(it):
        man = SymObj("WallGoManager", "manager", label="manager", rest="stale")
        man.attrs["config"] = SymObj(None, None, label="config", attrs={"configHydrodynamics": cfgH})
        return man, [th], {}, {"man": man}
    reg = {"Hydrodynamics.__new__": lambda it, cref, a, k: (it.event(kind="new", cls="Hydrodynamics", args=list(a), kwargs=dict(k)),
                                                             SymObj("Hydrodynamics", "hydrodynamics", label=it.fresh_name("hydrodynamics.built")))[1]}
    paths = chk.summarize("manager", "WallGoManager._initHydrodynamics", mk, registry=reg)
    rets = sel(paths)
    if not rets:
        chk.undecided.append("_initHydrodynamics: no returning path")
    for i, p in enumerate(rets):
        man = p.state["man"]
        news = [e for e in p.events if e.get("kind") == "new"]
        ok = (len(news) == 1 and news[0]["args"][:1] == [th] and len(news[0]["args"]) + len(news[0]["kwargs"]) == 5
              and isinstance(man.attrs.get("hydrodynamics"), SymObj) and man.attrs["hydrodynamics"].label.startswith("hydrodynamics.built"))
        chk.vc(f"_initHydrodynamics.fresh-solver-from-this-setup.{i}", p.pc, sym.to_sym(bool(ok)), func=fn, kind="frame")
        if ok:
            a = list(news[0]["args"]) + [news[0]["kwargs"].get(n) for n in ("tmax", "tmin", "rtol", "atol")][len(news[0]["args"]) - 1:]
            chk.vc(f"_initHydrodynamics.configured-range-and-tolerances.{i}", p.pc,
                   And(Eq(a[1], real("cfg.tmax")), Eq(a[2], real("cfg.tmin")), Eq(a[3], real("cfg.relativeTol")), Eq(a[4], real("cfg.absoluteTol"))), func=fn)
    # wallSpeedLTE: the hydrodynamics object of the manager, asked once
    fn2 = "manager.WallGoManager.wallSpeedLTE"
    vlte = real("vwLTE.answer")

    def mk2(it):
        hy = SymObj("Hydrodynamics", "hydrodynamics", label="hydrodynamics.current")
        man = SymObj("WallGoManager", "manager", label="manager", rest="stale")
        man.attrs["hydrodynamics"] = hy
        return man, [], {}, {"hy": hy}
    reg2 = {"Hydrodynamics.findvwLTE": lambda it, so, a, k: (it.event(kind="contract-call", name="findvwLTE", obj=so), vlte)[1]}
    for i, p in enumerate(sel(chk.summarize("manager", "WallGoManager.wallSpeedLTE", mk2, registry=reg2))):
        calls = [e for e in p.events if e.get("name") == "findvwLTE"]
        chk.vc(f"wallSpeedLTE.is-findvwLTE-of-the-current-solver.{i}", p.pc,
               And(sym.to_sym(len(calls) == 1 and calls[0]["obj"] is p.state["hy"]), Eq(p.value, vlte)), func=fn2)
