"""C08 - results are covariant under a relabelling of field space.

Relational obligations on the summaries of the real functions (same idea as C07): the second run uses
    phi'_f = s_f phi_{pi(f)} + b_f   (translation b, reflection s_f = +-1, permutation pi of the two fields),
with the potential, its field gradient, the masses and their field derivatives transformed consistently
    V'(y) = V(A^-1 (y - b)),   dV'_f(y) = s_f dV_{pi(f)}(A^-1 (y - b)),   msq'(y) = msq(A^-1 (y - b)),
and the per-field wall parameters (widths, offsets) permuted.  For every translation vector, every sign pattern and the swap:
  * wallProfile: fields' = A fields + b,  dPhidz' = A dPhidz (linear part only);
  * action: unchanged;     * the pressure integrand of _intermediatePressureResults: unchanged;
  * the T33 balance (kinetic term sum_f (d phi_f/dz)^2, potential) and the stress tensor from the moments: unchanged;
  * _updateGrid: the same grid (thickness, centre, tails) - the envelope runs over all fields;
  * initial wall of the search: the same width for every field, zero offsets (permutation invariant).
Not decided: the behaviour of the Nelder-Mead minimiser and of the phase tracer under relabelling; the pinned first offset
(a permutation moves the pinned field: offsets then differ by a common shift of the wall position).
"""
from __future__ import annotations

import itertools
import numpy as np
import sympy as sp

from wgvc.api import *            # noqa: F401,F403
from wgvc import sym
from wgvc.builtins_model import as_array
from .C04_plasma import make_eom, EOMQ
from .C09_pressure import wall_params, LOW, HIGH, REG_FIELDS, NF, dV, dm2

PROPERTY = "C08"
MIN_OBLIGATIONS = 15
MODULE = "equationOfMotion"
b = [real("shift0"), real("shift1")]
s = [real("sign0"), real("sign1")]
SIGN_FACTS = [Eq(s[0]**2, 1), Eq(s[1]**2, 1)]
V = specfun("Veff3")
msqf = [specfun("msqVac0"), specfun("msqVac1")]
PER_FIELD = ["vevLow", "vevHigh", "width", "offset", "dphi", "phi"]


def relabel(e, perm, field_syms=("vevLow", "vevHigh", "phi"), vec_syms=("dphi",), per_field=("width", "offset")):
    """the same quantity in the relabelled run, expressed through the original symbols"""
    e = sym.to_sym(e)
    pi = perm

    def rec(x):
        if isinstance(x, sp.Symbol):
            for base in field_syms:
                for f in range(NF):
                    if x.name == f"{base}{f}":
                        return s[f] * real(f"{base}{pi[f]}") + b[f]
            for base in vec_syms:
                for f in range(NF):
                    if x.name == f"{base}{f}":
                        return s[f] * real(f"{base}{pi[f]}")
            for base in per_field:
                for f in range(NF):
                    if x.name == f"{base}{f}" or x.name.startswith(f"{base}{f}_") or x.name.startswith(f"{base}{f}."):
                        return real(x.name.replace(f"{base}{f}", f"{base}{pi[f]}", 1))
            return x
        if isinstance(x, sp.Function):
            nm = type(x).__name__
            args = [rec(a) for a in x.args]
            if nm in ("Veff3", "msqVac0", "msqVac1") or nm.startswith("dVeff_dphi") or nm.startswith("dmsq"):
                y = args[:NF]
                orig = [None] * NF
                for f in range(NF):
                    # y_f = s_f phi_{pi f} + b_f  =>  phi_{pi f} = (y_f - b_f) / s_f  ( = s_f (y_f - b_f) since s_f^2 = 1 )
                    orig[pi[f]] = sp.expand(s[f] * (y[f] - b[f]))
                orig = [sp.expand(o.subs({s[0]**2: 1, s[1]**2: 1})) for o in orig]
                rest = args[NF:]
                if nm == "Veff3" or nm.startswith("msqVac"):
                    return type(x)(*orig, *rest)
                if nm.startswith("dVeff_dphi"):
                    f = int(nm[-1])
                    return s[f] * dV[pi[f]](*orig, *rest)
                if nm.startswith("dmsq"):
                    p_, f = int(nm[4]), int(nm[-1])
                    return s[f] * dm2[p_][pi[f]](*orig, *rest)
            return type(x)(*args)
        if not x.args:
            return x
        return x.func(*[rec(a) for a in x.args])
    return rec(e)


def reduce_signs(e):
    """polynomial normal form with s_f**2 = 1 applied (part of VC generation; justified by the facts s_f**2 == 1)"""
    e = sp.expand(sym.to_sym(e))
    return e.replace(lambda x: isinstance(x, sp.Pow) and x.base in s and isinstance(x.exp, sp.Integer) and x.exp >= 2,
                     lambda x: x.base if x.exp % 2 else sp.Integer(1))


def same(a, b_):
    """a == b as the reduced difference == 0"""
    d = reduce_signs(sym.to_sym(a) - sym.to_sym(b_))
    d = reduce_signs(d)
    return Eq(d, 0)


PERMS = {"identity": (0, 1), "swap": (1, 0)}


def invariant(chk, name, facts, value, fn, transform=lambda f, v, perm: v):
    for pname, perm in PERMS.items():
        want = transform(None, sym.to_sym(value), perm)
        got = relabel(value, perm)
        sfacts = [relabel(f, perm) for f in facts]
        chk.vc(f"{name}.{pname}+shift+reflect", list(facts) + sfacts + SIGN_FACTS, same(got, want), func=fn, kind="relabel")


def build(chk):
    chk.assume_note("relabelling covariance is checked per function; the model callbacks are transformed consistently (premise of the property); "
                    "two fields; reflections as symbolic signs with s^2 = 1; translations as symbolic shifts")
    c_profile(chk)
    c_action(chk)
    c_pressure(chk)
    c_lhs_and_grid(chk)
    # 'first offset pinned, remaining offsets and all widths minimised': the box of that minimisation is the configured, two-sided one (shared with C09)
    from .C09_pressure import c_minimiser_bounds
    c_minimiser_bounds(chk, run_tail=True)
    # 'grid centre and thickness from the envelope of all walls' (shared with C09)
    from .C09_pressure import c_updateGrid
    c_updateGrid(chk)


def c_profile(chk):
    fn = f"{EOMQ}.wallProfile"
    z0 = real("z0")

    def mk(it):
        for f in range(NF):
            it.assume(Gt(real(f"width{f}"), 0))
        return make_eom(), [as_array([z0]), as_array([LOW]), as_array([HIGH]), wall_params()], {}, {}
    (p,) = sel(chk.summarize(MODULE, "EOM.wallProfile", mk, registry=REG_FIELDS))
    fields, dphi = (as_array(x) for x in p.value)
    for pname, perm in PERMS.items():
        for f in range(NF):
            chk.vc(f"wallProfile.fields.field{f}.{pname}+shift+reflect", p.pc + SIGN_FACTS,
                   same(relabel(fields[0, f], perm), s[f] * fields[0, perm[f]] + b[f]), func=fn, kind="relabel")
            chk.vc(f"wallProfile.gradient.field{f}.{pname}+shift+reflect", p.pc + SIGN_FACTS,
                   same(relabel(dphi[0, f], perm), s[f] * dphi[0, perm[f]]), func=fn, kind="relabel")
    chk.canary("wallProfile.fields", p.pc + SIGN_FACTS, Eq(relabel(fields[0, 0], PERMS["swap"]), fields[0, 0]), func=fn)


def _callbacks():
    def evaluate(it, so, a, k):
        f, t = as_array(a[0]), a[1]
        t = as_array(t).reshape(-1) if isinstance(t, (np.ndarray, list)) else [t] * f.shape[0]
        return as_array([V(f[i, 0], f[i, 1], t[i] if len(t) > 1 else t[0]) for i in range(f.shape[0])])

    def msqv(it, so, a, k):
        f = as_array(a[0])
        return as_array([msqf[so.attrs["__index__"]](f[i, 0], f[i, 1]) for i in range(f.shape[0])])
    return {"EffectivePotential.evaluate": evaluate, "Particle.msqVacuum": msqv}


def c_action(chk):
    fn = f"{EOMQ}.action"
    zs = [real("xi0"), real("xi1")]
    Tprof = [real("Tprof0"), real("Tprof1")]
    D00 = [[real(f"Delta00_{p}_{i}") for i in range(2)] for p in range(2)]
    dz = [real("dzdchi0"), real("dzdchi1")]
    ints = {}

    def poly_new(it, cref, a, k):
        return SymObj("Polynomial", "polynomial", label=it.fresh_name("poly"), attrs={"coefficients": a[0]})

    def integrate(it, so, a, k):
        w = as_array(k.get("weight")).reshape(-1)
        c = as_array(so.attrs["coefficients"]).reshape(-1)
        # contract of Polynomial.integrate (C16): sum over the axis of quadrature weight * weight * grid value
        return sum(real(f"gcl{i}") * w[i] * c[i] for i in range(len(c)))
    reg = dict(REG_FIELDS)
    reg.update(_callbacks())
    reg.update({"Polynomial.__new__": poly_new, "Polynomial.integrate": integrate,
                "Grid.getCompactificationDerivatives": lambda it, so, a, k: (as_array(dz), Opaque("dpz"), Opaque("dpp"))})

    def mk(it):
        for f in range(NF):
            it.assume(Gt(real(f"width{f}"), 0))
        eom = make_eom(2)
        eom.attrs["grid"].attrs["xiValues"] = as_array(zs)
        d00 = SymObj("Polynomial", "polynomial", label="Delta00", attrs={"coefficients": as_array(D00)})
        return eom, [wall_params(), as_array([LOW]), as_array([HIGH]), as_array(Tprof), d00], {}, {}
    paths = sel(chk.summarize(MODULE, "EOM.action", mk, registry=reg))
    if len(paths) != 1:
        chk.undecided.append(f"action: {len(paths)} returning paths")
        return
    p = paths[0]
    invariant(chk, "action.invariant", p.pc, p.value, fn)
    chk.canary("action.invariant", p.pc + SIGN_FACTS, Eq(relabel(p.value, PERMS["identity"]), p.value + 1), func=fn)


def c_pressure(chk):
    """the integrand sum_f (dV/dphi_f + dVout_f) dphi_f/dz of the pressure is a field-space scalar"""
    fn = f"{EOMQ}._intermediatePressureResults"
    import contracts.C09_pressure as c9
    from wgvc.api import Check
    probe = Check("C08-probe")
    c9.c_pressure_tail(probe)
    chk.path_count += probe.path_count
    chk.functions.update(probe.functions)
    # the integrand obligations of C09 state coeffs[k] == spec_k; take the proven spec (left-hand sides are the code's values)
    goals = [v for v in probe.vcs if ".pressure.integrand.point" in v.name]
    if not goals:
        chk.undecided.append("pressure integrand not available")
        return
    for v in goals:
        code_value = v.goal.lhs
        k = v.name.split("point")[1].split(".")[0]
        # final wall parameters are symbols of the stub minimiser: sol_w0, sol_w1 (widths), sol_o1 (second offset; the first is pinned to 0)
        for pname, perm in (("identity", (0, 1)),):
            got = relabel(code_value, perm)
            chk.vc(f"pressure.integrand.point{k}.{pname}+shift+reflect", SIGN_FACTS, same(got, code_value), func=fn, kind="relabel")
    chk.canary("pressure.integrand", SIGN_FACTS, same(relabel(goals[0].goal.lhs, (0, 1)), goals[0].goal.lhs + 1), func=fn)
    chk.assume_note("the permutation is not applied to _intermediatePressureResults as a whole: its first offset is pinned to 0 (declared site), so a swap moves the "
                    "pinned field; the permutation invariance of the integrand itself follows from the sum over fields (checked on action and wallProfile)")


def c_lhs_and_grid(chk):
    from .C04_plasma import eom_registry, Vf, dVdT
    # T33 balance: kinetic term is sum_f (dphi_f/dz)^2 - invariant under reflection and permutation of the gradient
    fn = f"{EOMQ}.temperatureProfileEqLHS"
    PHI = [real("phi0"), real("phi1")]
    DPHI = [real("dphi0"), real("dphi1")]
    T, s1, s2 = real("T"), real("s1"), real("s2")
    V4, dVT = specfun("Veff3"), specfun("dVeffT3")
    reg = {"EffectivePotential.evaluate": lambda it, so, a, k: V4(*list(as_array(a[0]).reshape(-1)), a[1]),
           "EffectivePotential.derivT": lambda it, so, a, k: specfun("msqVac0")(*list(as_array(a[0]).reshape(-1))) * 0 + specfun("dVT")(a[1]) if False else
           specfun("Veff3")(*list(as_array(a[0]).reshape(-1)), a[1] + 0) * 0 + real("dVdT_value")}
    # dV/dT at the (relabelled) point is the same number: treat it as an invariant symbol

    def mk(it):
        it.assume(Ne(s1, 0))
        return make_eom(), [as_array(PHI), as_array(DPHI), T, s1, s2], {}, {}
    paths = sel(chk.summarize(MODULE, "EOM.temperatureProfileEqLHS", mk, registry=reg))
    for i, p in enumerate(paths):
        invariant(chk, f"temperatureProfileEqLHS.invariant.{i}", p.pc, p.value, fn)
    # _updateGrid: the same thickness / centre / tails when widths and offsets are permuted
    fn2 = f"{EOMQ}._updateGrid"
    widths = [real("width0"), real("width1")]
    offsets = [real("offset0"), real("offset1")]
    vmid = real("velocityMid")

    def mk2(it):
        grid = SymObj("Grid3Scales", "grid3Scales", label="grid", attrs={"smoothing": real("grid.smoothing"), "ratioPointsWall": real("grid.ratioPointsWall")})
        eom = SymObj("EOM", MODULE, label="eom", attrs={"grid": grid, "meanFreePathScale": real("meanFreePathScale"), "includeOffEq": True})
        wp = SymObj("WallParams", "containers", label="wallParams", attrs={"widths": as_array(widths), "offsets": as_array(offsets)})
        for c in [Gt(w, 0) for w in widths] + [Gt(vmid, -1), Lt(vmid, 1), Gt(real("grid.smoothing"), 0), Gt(real("grid.ratioPointsWall"), 0)]:
            it.assume(c)
        return eom, [wp, vmid], {}, {}

    def change(it, so, a, k):
        it.event(kind="contract-call", name="changePositionFalloffScale", args=list(a))
    for i, p in enumerate(sel(chk.summarize(MODULE, "EOM._updateGrid", mk2, registry={"Grid3Scales.changePositionFalloffScale": change}))):
        args = [e for e in p.events if e.get("name") == "changePositionFalloffScale"][0]["args"]
        for j, a in enumerate(args):
            got = relabel(a, PERMS["swap"])
            chk.vc(f"_updateGrid.arg{j}.swap-invariant.{i}", p.pc + [relabel(c, PERMS["swap"]) for c in p.pc], Eq(got, a), func=fn2, kind="relabel")
