"""F6 (C04): EOM.findPlasmaProfilePoint returns the *minimiser* of the T33 balance when that balance has no root
(LHS > 0 everywhere), with T > 0, so findPlasmaProfile keeps successTemperatureProfile == True although the returned
(T, v) does not reproduce the boundary constant c2.  Run with /venv/bin/python; exit 0 = reproduced."""
import sys
import types
import numpy as np
from WallGo.equationOfMotion import EOM
from WallGo.fields import Fields
from WallGo.containers import BoltzmannDeltas


class ToyPotential:
    """V(phi, T) = -a T^4 + (T^2 - 1) phi^2/2 + phi^4/4  (analytic temperature dependence)"""
    a = 1.0

    def evaluate(self, fields, T):
        phi = np.asarray(fields)[..., 0]
        return -self.a * T**4 + 0.5 * (T**2 - 1) * phi**2 + 0.25 * phi**4

    def derivT(self, fields, T):
        phi = np.asarray(fields)[..., 0]
        return -4 * self.a * T**3 + T * phi**2


class ZeroPoly:
    coefficients = np.zeros((0, 3))


eom = EOM.__new__(EOM)
eom.thermo = types.SimpleNamespace(effectivePotential=ToyPotential())
eom.hydrodynamics = types.SimpleNamespace(Tnucl=0.5)
eom.particles = []
eom.errTol = 1e-3
eom.grid = types.SimpleNamespace(xiValues=np.zeros(3))
deltas = BoltzmannDeltas(ZeroPoly(), ZeroPoly(), ZeroPoly(), ZeroPoly())

# boundary constants of a uniform state (phi = 0, T0 = 0.65, v0 = -0.3)
T0, v0 = 0.65, -0.3
pot = ToyPotential()
phi0 = Fields([0.0])
w0 = -T0 * pot.derivT(phi0, T0)[0]
g2 = 1 / (1 - v0**2)
c1 = w0 * g2 * v0
c2 = -pot.evaluate(phi0, T0)[0] + w0 * g2 * v0**2
ok = False
for dphi in (0.0, 0.5, 2.0, 5.0):
    fields, dPhidz = Fields([0.0] * 3).reshape(3, 1).view(Fields), Fields([dphi] * 3).reshape(3, 1).view(Fields)
    Tprof, vprof = eom.findPlasmaProfile(c1, c2, v0, fields, dPhidz, deltas, T0, T0)
    T, v = Tprof[0], vprof[0]
    w = -T * pot.derivT(phi0, T)[0]
    t30 = w * v / (1 - v**2) - c1
    t33 = 0.5 * dphi**2 - pot.evaluate(phi0, T)[0] + w * v**2 / (1 - v**2) - c2
    print(f"dphi/dz={dphi}: T={T:.4f} v={v:.4f} success={eom.successTemperatureProfile}  T30 residual={t30:.2e}  T33 residual={t33:.3g}  (c2={c2:.3g})")
    if dphi > 0 and eom.successTemperatureProfile and abs(t33) > 1e-2 * abs(c2):
        ok = True
print("REPRODUCED" if ok else "NOT REPRODUCED")
sys.exit(0 if ok else 1)
