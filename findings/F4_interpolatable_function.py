"""F4a/b/c (C18): InterpolatableFunction
  a) _dropBadPoints / scheduleForInterpolation use np.all(np.isfinite(fx)) as the mask for scalar-valued functions: one NaN drops every point;
  b) _evaluateOutOfBounds writes res[mask, :] into a 1-D result for scalar-valued functions: IndexError for every mode pair that reaches it;
  c) derivative() hands the WHOLE input to the out-of-range finite differences on mixed in/out-of-range input: ValueError.
Run with /venv/bin/python [a|b|c]; exit 0 = the named defect is present (reproduced), exit 1 = not present (fixed)."""
import sys
import warnings
import numpy as np
warnings.filterwarnings("ignore")
from WallGo.interpolatableFunction import InterpolatableFunction, EExtrapolationType     # noqa: E402


class Sq(InterpolatableFunction):
    def _functionImplementation(self, x):
        return np.asarray(x) ** 2


def part_a():
    x = np.array([0.0, 1.0, 2.0, 3.0])
    fx = np.array([0.0, 1.0, np.nan, 9.0])
    xv, fv = InterpolatableFunction._dropBadPoints(x, fx)
    print("a) kept abscissae:", xv)
    return not np.array_equal(xv, [0.0, 1.0, 3.0])


def part_b():
    f = Sq(bUseAdaptiveInterpolation=False)
    f.setExtrapolationType(EExtrapolationType.CONSTANT, EExtrapolationType.FUNCTION)
    f.newInterpolationTable(0.0, 1.0, 20)
    try:
        out = f(np.array([-1.0, 0.5, 2.0]))
        print("b) result:", out)
        return not (abs(out[0] - 0.0) < 1e-12 and abs(out[1] - 0.25) < 1e-9 and abs(out[2] - 4.0) < 1e-6)
    except IndexError as exc:
        print("b) IndexError:", exc)
        return True


def part_c():
    f = Sq(bUseAdaptiveInterpolation=False, returnValueCount=1)
    f.setExtrapolationType(EExtrapolationType.NONE, EExtrapolationType.NONE)
    f.newInterpolationTable(0.0, 1.0, 50)
    try:
        out = f.derivative(np.array([0.5, 2.0, 3.0]))
        print("c) derivative:", out)
        return not np.allclose(out, [1.0, 4.0, 6.0], atol=1e-4)
    except (ValueError, IndexError) as exc:
        print("c)", type(exc).__name__, exc)
        return True


which = sys.argv[1] if len(sys.argv) > 1 else "abc"
present = [p for p, fn in (("a", part_a), ("b", part_b), ("c", part_c)) if p in which and fn()]
print("REPRODUCED:" if present else "NOT REPRODUCED (fixed)", ",".join(present))
sys.exit(0 if present else 1)
