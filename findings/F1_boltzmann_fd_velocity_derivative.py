"""F1 (C12): in the finite-difference branch of BoltzmannSolver.buildLinearEquations the velocity derivative was computed
from the TEMPERATURE profile (dvdChi = D @ temperatureFull), so a pure velocity gradient produced no source.
Run with /venv/bin/python; exit 0 = defect present (reproduced), exit 1 = not present (fixed)."""
import sys
import warnings
import numpy as np
warnings.filterwarnings("ignore")
import WallGo                                                  # noqa: E402
from WallGo import Fields                                       # noqa: E402
from WallGo.boltzmann import BoltzmannSolver                    # noqa: E402
from WallGo.containers import BoltzmannBackground               # noqa: E402
from WallGo.grid import Grid                                    # noqa: E402
from WallGo.particle import Particle                            # noqa: E402

M, N = 9, 5
grid = Grid(M, N, 1.0, 1.0)
part = Particle("top", index=0, msqVacuum=lambda f: 0.5 * np.ones_like(np.asarray(f)[..., 0]), msqDerivative=lambda f: np.zeros_like(f),
                statistics="Fermion", totalDOFs=12)
chi = grid.getCompactCoordinates(endpoints=True)[0]
v = -0.5 + 0.1 * chi                 # velocity gradient only
T = np.ones(M + 1)                   # constant temperature
fields = Fields(*[[1.0]] * (M + 1)) if False else Fields.castFromNumpy(np.ones((M + 1, 1)))
res = {}
for mode in ("Spectral", "Finite Difference"):
    bs = BoltzmannSolver(grid, basisM="Cardinal", basisN="Cardinal", derivatives=mode)
    bs.updateParticleList([part])
    bs.setBackground(BoltzmannBackground(0.0, v, fields, T))

    class Zero:
        def __getitem__(self, key):
            return np.zeros((1, N - 1, N - 1, 1, N - 1, N - 1))[key]
    bs.collisionArray = Zero()
    _, source, _, _ = bs.buildLinearEquations()
    res[mode] = np.max(np.abs(source))
    print(f"{mode:18s}: max |source| = {res[mode]:.3g}")
present = res["Spectral"] > 1e-3 and res["Finite Difference"] < 1e-10
print("REPRODUCED" if present else "NOT REPRODUCED (fixed)")
sys.exit(0 if present else 1)
