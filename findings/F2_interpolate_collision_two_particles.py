"""F2 (C14): CollisionArray.interpolateCollisionArray reshaped the evaluated array (points, P, P, n, n) straight to
(P, n, n, P, n, n) without moving the points axis: correct for one particle only.
Run with /venv/bin/python; exit 0 = the defect is present (reproduced), exit 1 = not present (fixed)."""
import sys
import warnings
import numpy as np
warnings.filterwarnings("ignore")
import WallGo                                                     # noqa: E402
from WallGo.collisionArray import CollisionArray                   # noqa: E402
from WallGo.polynomial import Polynomial                           # noqa: E402
from WallGo.grid import Grid                                       # noqa: E402


class P:
    def __init__(self, name):
        self.name = name


worst = {}
for nP in (1, 2, 3):
    rng = np.random.default_rng(nP)
    src_grid, tgt_grid = Grid(3, 9, 1.0, 1.0), Grid(3, 5, 1.0, 1.0)
    ns, nt = 8, 4
    data = rng.normal(size=(nP, ns, ns, nP, ns, ns))
    poly = Polynomial(data.copy(), src_grid, ("Array", "Cardinal", "Cardinal", "Array", "Chebyshev", "Chebyshev"),
                      ("Array", "pz", "pp", "Array", "pz", "pp"), False)
    src = CollisionArray.newFromPolynomial(poly, [P(f"p{i}") for i in range(nP)])
    out = CollisionArray.interpolateCollisionArray(src, tgt_grid)[:]
    err = 0.0
    for al, rz in enumerate(tgt_grid.rzValues):
        for be, rp in enumerate(tgt_grid.rpValues):
            ref = np.asarray(poly.evaluate(np.array([[rz], [rp]]), (1, 2)))[0]       # (P, P, ns, ns)
            err = max(err, np.max(np.abs(out[:, al, be, :, :, :] - ref[:, :, :nt, :nt])))
    worst[nP] = err
    print(f"{nP} particle(s): max |interpolated - source operator at target points| = {err:.3g}")
present = worst[1] < 1e-10 and (worst[2] > 1e-3 or worst[3] > 1e-3)
print("REPRODUCED" if present else "NOT REPRODUCED (fixed)")
sys.exit(0 if present else 1)
