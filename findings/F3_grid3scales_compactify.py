"""F3 (C17): Grid3Scales inherits Grid.compactify, which inverts the *simple* map z = L chi / sqrt(1 - chi^2), not the
three-scale map that Grid3Scales.decompactify implements; changePositionFalloffScale does not update the
positionFalloff that the inherited method uses either.  Run with /venv/bin/python; exit 0 = reproduced."""
import sys
import numpy as np
from WallGo.grid3Scales import Grid3Scales

g = Grid3Scales(20, 11, 2.0, 2.0, 1.0, 1.0, 0.5, 0.1, 0.0)
chi = np.array([-0.5, 0.0, 0.5])
z, pz, pp = g.decompactify(chi, np.zeros(3), np.zeros(3))
back = g.compactify(z, pz, pp)[0]
print("chi            ", chi)
print("compactify(decompactify(chi))", back)
err = np.max(np.abs(back - chi))
g.changePositionFalloffScale(4.0, 4.0, 2.0, 0.0)
print("after rescale: wallThickness", g.wallThickness, "positionFalloff", g.positionFalloff)
ok = err > 1e-2 and g.positionFalloff != g.wallThickness
print("REPRODUCED" if ok else "NOT REPRODUCED", f"(max |error| = {err:.3g})")
sys.exit(0 if ok else 1)
