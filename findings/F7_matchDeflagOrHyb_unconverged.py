"""F7 (C02): Hydrodynamics.matchDeflagOrHyb returns the last hybr iterate although the solver did not
converge; findMatching never reads the flag.  Run with /venv/bin/python; exit 0 = reproduced."""
import sys
import warnings
import numpy as np
sys.path.insert(0, "/repo/tests")
warnings.filterwarnings("ignore")
import WallGo                                      # noqa: E402
from test_Hydrodynamics import TestModelBag        # noqa: E402  (the bag EOS of the pinned suite)
import scipy.optimize as so                        # noqa: E402
import WallGo.hydrodynamics as H                   # noqa: E402

model = TestModelBag(0.7, 0.95)
hydro = WallGo.Hydrodynamics(model, 10, 0.1, 1e-6, 1e-6)
vw = 0.001114
assert vw >= hydro.vMin, (vw, hydro.vMin)

flags = []
_root = so.root


def recording_root(*a, **k):
    sol = _root(*a, **k)
    flags.append((bool(sol.success), float(np.sum(sol.fun**2))))
    return sol


H.root = recording_root
vp, vm, Tp, Tm = hydro.findMatching(vw)
th = hydro.thermodynamics
g2 = lambda v: 1 / (1 - v * v)                      # noqa: E731
f30p, f30m = th.wHighT(Tp) * g2(vp) * vp, th.wLowT(Tm) * g2(vm) * vm
f33p, f33m = th.wHighT(Tp) * g2(vp) * vp**2 + th.pHighT(Tp), th.wLowT(Tm) * g2(vm) * vm**2 + th.pLowT(Tm)
rel30 = abs(f30p - f30m) / abs(f30p)
print(f"vw={vw} returned (vp,vm,Tp,Tm)=({vp:.6g},{vm:.6g},{Tp:.6g},{Tm:.6g})")
print(f"hybr calls: {len(flags)}, converged: {sum(s for s, _ in flags)}, last sum(fun^2)={flags[-1][1]:.3g}")
print(f"energy-flux mismatch {rel30:.3%}; momentum-flux mismatch {abs(f33p - f33m) / abs(f33p):.3%}")
ok = (not flags[-1][0]) and rel30 > 1e-2
print("REPRODUCED" if ok else "NOT REPRODUCED")
sys.exit(0 if ok else 1)
