"""F8 (C18): derivative() of an InterpolatableFunction just outside its table, mode CONSTANT: expected 0 (the extrapolation is flat),
obtained garbage because the finite-difference stencil reaches into the table where _evaluateOutOfBounds writes nothing (np.empty).
Run: PYTHONPATH=<tree>/src /venv/bin/python findings/F8_derivative_straddling_stencil.py ; exit 0 = defect present, 1 = absent."""
import numpy as np, sys
from WallGo.interpolatableFunction import InterpolatableFunction, EExtrapolationType
class F(InterpolatableFunction):
    def _functionImplementation(self, x):
        return np.asarray(x)**2
bad=0
for trial in range(20):
    f=F(bUseAdaptiveInterpolation=False)
    f.setExtrapolationType(EExtrapolationType.CONSTANT, EExtrapolationType.CONSTANT)
    f.newInterpolationTable(1.0, 2.0, 50)
    junk=np.full(1000, 1e300)   # dirty the allocator
    del junk
    x=2.0004   # outside the table by less than two finite-difference steps
    d=f.derivative(np.array([x]), order=1)
    # rule of the side: CONSTANT -> evaluate() is flat outside, so the derivative of what evaluate() returns is 0
    if not (abs(d[0]) < 1e-6): bad+=1; last=d[0]
print("derivative just above the table in CONSTANT mode (should be 0):", "violations", bad, "of 20", "example", last if bad else None)
sys.exit(0 if bad else 1)
